#!/bin/bash
# run every registered check once (tier = $1, default quick); print one line per check
cd "$(dirname "$0")"
tier="${1:-quick}"
rc_all=0
for p in C01 C02 C03 C04 C05 C06 C07 C08 C09 C10 C11 C12 C13 C14 C15 C16 C17; do
  out=$(./check $p $tier 2>/dev/null | grep -E "^(OK|VIOLATION|INCONCLUSIVE)" | cut -c1-220)
  echo "$out"
  echo "$out" | grep -q "^OK" || rc_all=1
done
exit $rc_all
