//! Small workloads meant to run under Miri (`cargo +nightly miri run`): undefined-behaviour and
//! data-race interpreter over (a) the racing first use of the lazily built square-root tables,
//! (b) the one `unsafe` of the crate (`from_utf8_unchecked` in the Debug impls of the fields),
//! (c) a few curve operations. Contract violations panic (non-zero exit); UB is reported by Miri.
//!   usage: dvmiri <lazy|debug|curve> <shard> <nshards>
use decaf377::{Element, Encoding, Fp, Fq, Fr};

fn fq_from(i: u64) -> Fq {
    Fq::from(i.wrapping_mul(0x9E37_79B9_7F4A_7C15) | 1) * Fq::from(0xDEAD_BEEF_u64 + i) + Fq::from(i)
}

#[cfg(feature = "ark")]
fn sqrt_ratio(n: &Fq, d: &Fq) -> (bool, Fq) {
    Fq::sqrt_ratio_zeta(n, d)
}
#[cfg(not(feature = "ark"))]
fn sqrt_ratio(n: &Fq, d: &Fq) -> (bool, Fq) {
    Fq::non_arkworks_sqrt_ratio_zeta(n, d)
}

fn check_contract(num: Fq, den: Fq) {
    let (w, y) = sqrt_ratio(&num, &den);
    if num == Fq::ZERO {
        assert!(w && y == Fq::ZERO, "CONTRACT: num = 0");
    } else if den == Fq::ZERO {
        assert!(!w && y == Fq::ZERO, "CONTRACT: den = 0");
    } else if w {
        assert!(y * y * den == num, "CONTRACT: y^2*den != num");
    } else {
        assert!(y * y * den == decaf377::ZETA * num, "CONTRACT: y^2*den != zeta*num");
    }
}

fn lazy(shard: u64, ops: u64) {
    // three threads released together into their first sqrt_ratio call
    let barrier = std::sync::Arc::new(std::sync::Barrier::new(3));
    let mut hs = Vec::new();
    for t in 0..3u64 {
        let b = barrier.clone();
        hs.push(std::thread::spawn(move || {
            b.wait();
            let num = fq_from(shard * 1000 + 7);
            let den = fq_from(shard * 1000 + 11);
            let r = sqrt_ratio(&num, &den);
            check_contract(fq_from(shard * 1000 + 100 + t), fq_from(shard * 1000 + 200 + t));
            (r.0, r.1.to_bytes_le())
        }));
    }
    let rs: Vec<_> = hs.into_iter().map(|h| h.join().expect("thread")).collect();
    assert!(rs[0] == rs[1] && rs[1] == rs[2], "CONTRACT: racing first uses disagree");
    for i in 0..ops {
        check_contract(fq_from(shard * 7919 + i), fq_from(shard * 104729 + 3 * i + 1));
    }
    check_contract(Fq::ZERO, Fq::ONE);
    check_contract(Fq::ONE, Fq::ZERO);
    println!("MIRI-WORKLOAD lazy shard={shard} threads=3 sqrt_ratio_calls={}", 6 + ops + 2);
}

fn debug_fmt(shard: u64) {
    let mut n = 0;
    for i in 0..4u64 {
        let a = fq_from(shard * 31 + i);
        let s = format!("{a:?}");
        assert!(s.starts_with("Fq(0x") && s.len() == 5 + 64 + 1 && s.is_char_boundary(7), "CONTRACT: Debug of Fq");
        let b = Fr::from(shard * 17 + i) * Fr::from(0xABCDEF_u64);
        let s = format!("{b:?}");
        assert!(s.starts_with("Fr(0x") && s.len() == 5 + 64 + 1, "CONTRACT: Debug of Fr");
        let c = Fp::from(shard * 13 + i) * Fp::from(u64::MAX);
        let s = format!("{c:?}");
        assert!(s.starts_with("Fp(0x") && s.len() == 5 + 96 + 1, "CONTRACT: Debug of Fp");
        assert_eq!(Fq::from_bytes_checked(&a.to_bytes_le()).unwrap(), a);
        assert_eq!(Fr::from_le_bytes_mod_order(&b.to_bytes_le()), b);
        assert_eq!(Fp::from_le_bytes_mod_order(&c.to_bytes_le()), c);
        n += 6;
    }
    for z in [Fq::ZERO, Fq::ONE, -Fq::ONE] {
        let _ = format!("{z:?}");
        n += 1;
    }
    println!("MIRI-WORKLOAD debug shard={shard} ops={n}");
}

fn curve(shard: u64, ops: u64) {
    let g = Element::GENERATOR;
    let mut acc = Element::IDENTITY;
    let mut n = 0;
    for i in 0..ops {
        acc = acc + g;
        if i == 0 {
            assert!(acc == g, "CONTRACT: 0 + G");
        }
        n += 1;
    }
    let enc = acc.vartime_compress();
    let dec = Encoding(enc.0).vartime_decompress().expect("CONTRACT: decode(encode)");
    assert!(dec == acc, "CONTRACT: round trip");
    let k = Fr::from(shard + 2);
    let p = g * k;
    let mut q = Element::IDENTITY;
    for _ in 0..(shard + 2) {
        q = q + g;
    }
    assert!(p == q, "CONTRACT: scalar mul");
    let h = Element::encode_to_curve(&fq_from(shard));
    assert!(Encoding(h.vartime_compress().0).vartime_decompress().expect("CONTRACT: elligator output decodes") == h);
    println!("MIRI-WORKLOAD curve shard={shard} ops={}", n + 4 + shard + 2);
}

fn main() {
    let a: Vec<String> = std::env::args().collect();
    let which = a.get(1).map(|s| s.as_str()).unwrap_or("debug");
    let shard: u64 = a.get(2).and_then(|s| s.parse().ok()).unwrap_or(0);
    let ops: u64 = a.get(3).and_then(|s| s.parse().ok()).unwrap_or(4);
    match which {
        "lazy" => lazy(shard, ops),
        "debug" => debug_fmt(shard),
        "curve" => curve(shard, ops),
        _ => panic!("unknown workload"),
    }
}
