#!/bin/bash
# Offline setup after a fresh restore: build both harness flavours from files on disk and
# run the oracle self-test. Nothing is fetched.
set -e
cd "$(dirname "$0")"
export CARGO_NET_OFFLINE=true
./check build
./target/ark/release/dvharness selftest
./target/min/release/dvharness selftest
