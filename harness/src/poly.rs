//! Model-side root finding for small polynomials over Fq (Cantor–Zassenhaus), used to *engineer*
//! hostile inputs: field elements r0 / encodings s for which the value handed to the
//! square-root routine has a prescribed 2-primary component.
#![allow(dead_code)]
use crate::model::{b, Fld, B};
use num_traits::Zero;
use rand_core::RngCore;

/// dense polynomial, little-endian coefficients, always trimmed
pub type Poly = Vec<B>;

fn trim(mut p: Poly) -> Poly {
    while p.last().map(|c| c.is_zero()).unwrap_or(false) {
        p.pop();
    }
    p
}
pub fn deg(p: &Poly) -> isize {
    p.len() as isize - 1
}
pub fn padd(f: &Fld, a: &Poly, c: &Poly) -> Poly {
    let n = a.len().max(c.len());
    let mut o = vec![b(0); n];
    for i in 0..n {
        let x = a.get(i).cloned().unwrap_or_else(|| b(0));
        let y = c.get(i).cloned().unwrap_or_else(|| b(0));
        o[i] = f.add(&x, &y);
    }
    trim(o)
}
pub fn psub(f: &Fld, a: &Poly, c: &Poly) -> Poly {
    let n = a.len().max(c.len());
    let mut o = vec![b(0); n];
    for i in 0..n {
        let x = a.get(i).cloned().unwrap_or_else(|| b(0));
        let y = c.get(i).cloned().unwrap_or_else(|| b(0));
        o[i] = f.sub(&x, &y);
    }
    trim(o)
}
pub fn pmul(f: &Fld, a: &Poly, c: &Poly) -> Poly {
    if a.is_empty() || c.is_empty() {
        return vec![];
    }
    let mut o = vec![b(0); a.len() + c.len() - 1];
    for (i, x) in a.iter().enumerate() {
        for (j, y) in c.iter().enumerate() {
            o[i + j] = f.add(&o[i + j], &f.mul(x, y));
        }
    }
    trim(o)
}
pub fn pscale(f: &Fld, a: &Poly, k: &B) -> Poly {
    trim(a.iter().map(|x| f.mul(x, k)).collect())
}
/// remainder of a modulo m (m non-zero)
pub fn prem(f: &Fld, a: &Poly, m: &Poly) -> Poly {
    let mut r = trim(a.clone());
    let dm = deg(m);
    let lead_inv = f.inv(m.last().unwrap()).unwrap();
    while deg(&r) >= dm {
        let shift = (deg(&r) - dm) as usize;
        let coef = f.mul(r.last().unwrap(), &lead_inv);
        for (i, mc) in m.iter().enumerate() {
            r[i + shift] = f.sub(&r[i + shift], &f.mul(&coef, mc));
        }
        r = trim(r);
    }
    r
}
pub fn pgcd(f: &Fld, a: &Poly, c: &Poly) -> Poly {
    let (mut x, mut y) = (trim(a.clone()), trim(c.clone()));
    while !y.is_empty() {
        let r = prem(f, &x, &y);
        x = y;
        y = r;
    }
    if x.is_empty() {
        return x;
    }
    let li = f.inv(x.last().unwrap()).unwrap();
    pscale(f, &x, &li)
}
pub fn ppowmod(f: &Fld, base: &Poly, e: &B, m: &Poly) -> Poly {
    let mut acc: Poly = vec![b(1)];
    let base = prem(f, base, m);
    for i in (0..e.bits()).rev() {
        acc = prem(f, &pmul(f, &acc, &acc), m);
        if e.bit(i) {
            acc = prem(f, &pmul(f, &acc, &base), m);
        }
    }
    acc
}
pub fn peval(f: &Fld, p: &Poly, x: &B) -> B {
    let mut acc = b(0);
    for c in p.iter().rev() {
        acc = f.add(&f.mul(&acc, x), c);
    }
    acc
}

/// all roots in Fq of a non-zero polynomial (without multiplicity)
pub fn roots(f: &Fld, p: &Poly, rng: &mut impl RngCore) -> Vec<B> {
    let p = trim(p.clone());
    if deg(&p) < 1 {
        return vec![];
    }
    // product of the distinct linear factors: gcd(p, x^q - x)
    let x: Poly = vec![b(0), b(1)];
    let xq = ppowmod(f, &x, &f.p, &p);
    let g = pgcd(f, &p, &psub(f, &xq, &x));
    let mut out = Vec::new();
    split(f, g, rng, &mut out);
    out
}

fn split(f: &Fld, g: Poly, rng: &mut impl RngCore, out: &mut Vec<B>) {
    match deg(&g) {
        d if d < 1 => {}
        1 => {
            // x + c0/c1
            let r = f.neg(&f.div(&g[0], &g[1]).unwrap());
            out.push(r);
        }
        _ => {
            let half = (&f.p - b(1)) >> 1;
            loop {
                let a = crate::zoo::rand_below(rng, &f.p);
                let t: Poly = vec![a, b(1)];
                let h = psub(f, &ppowmod(f, &t, &half, &g), &vec![b(1)]);
                let d = pgcd(f, &g, &h);
                if deg(&d) >= 1 && deg(&d) < deg(&g) {
                    let (q, _) = pdivmod(f, &g, &d);
                    split(f, d, rng, out);
                    split(f, q, rng, out);
                    return;
                }
            }
        }
    }
}

pub fn pdivmod(f: &Fld, a: &Poly, m: &Poly) -> (Poly, Poly) {
    let mut r = trim(a.clone());
    let dm = deg(m);
    let mut q = vec![b(0); (deg(&r) - dm + 1).max(0) as usize];
    let lead_inv = f.inv(m.last().unwrap()).unwrap();
    while deg(&r) >= dm {
        let shift = (deg(&r) - dm) as usize;
        let coef = f.mul(r.last().unwrap(), &lead_inv);
        q[shift] = coef.clone();
        for (i, mc) in m.iter().enumerate() {
            r[i + shift] = f.sub(&r[i + shift], &f.mul(&coef, mc));
        }
        r = trim(r);
    }
    (trim(q), r)
}
