//! C04 — every form of addition, subtraction and negation computes the group law.
use crate::ad::*;
use crate::grp::*;
use crate::model::{b, Pt, B};
use crate::mon::{guarded, par, rng_for, Rec};
use crate::sh::*;
use crate::zoo::{rand_below, rand_range};
use rand_core::RngCore;
use serde_json::json;

const P: &str = "C04";

pub const PARTNERS: [&str; 10] = [
    "identity", "identity'", "G", "same", "same-rescaled", "neg", "other-rep", "neg-other-rep", "independent", "independent-rescaled",
];

pub fn partner(ctx: &Ctx, a: &SE, kind: &str, zoo: &[SE], rng: &mut impl RngCore) -> SE {
    let c = &ctx.c;
    let mk = |pt: Pt, l: Option<&B>| -> SE {
        let l_el = match l {
            None => from_pt(c, &pt),
            Some(l) => from_pt_scaled(c, &pt, l),
        };
        SE { l: l_el, m: pt, class: "partner" }
    };
    let lam = {
        let mut l = rand_below(rng, &c.f.p);
        if l == b(0) {
            l = b(7);
        }
        l
    };
    match kind {
        "identity" => mk(c.identity(), None),
        "identity'" => mk(c.t2(), None),
        "G" => mk(ctx.g.clone(), None),
        "same" => a.clone(),
        "same-rescaled" => mk(a.m.clone(), Some(&lam)),
        "neg" => mk(c.neg(&a.m), None),
        "other-rep" => mk(c.torque(&a.m), None),
        "neg-other-rep" => mk(c.torque(&c.neg(&a.m)), Some(&lam)),
        "independent" => zoo[rand_range(rng, zoo.len())].clone(),
        "independent-rescaled" => {
            let q = &zoo[rand_range(rng, zoo.len())];
            mk(q.m.clone(), Some(&lam))
        }
        _ => unreachable!(),
    }
}

fn inputs_json(a: &SE, bb: Option<&SE>) -> serde_json::Value {
    match bb {
        Some(bb) => json!({"a": el_json(&a.l), "a_class": a.class, "b": el_json(&bb.l), "b_class": bb.class}),
        None => json!({"a": el_json(&a.l), "a_class": a.class}),
    }
}

pub fn apply_bin(ctx: &Ctx, rec: &mut Rec, prop: &str, f: &BinForm, a: &SE, bb: &SE) -> Option<SE> {
    let c = &ctx.c;
    let want = match f.kind {
        BinKind::Add => c.add(&a.m, &bb.m),
        BinKind::Sub => c.sub(&a.m, &bb.m),
    };
    rec.form(f.name);
    rec.event(format!("call {} a={:?} b={:?}", f.name, hex::encode(enc_quiet(&a.l)), hex::encode(enc_quiet(&bb.l))));
    let (la, lb) = (a.l, bb.l);
    let got = guarded(|| (f.f)(&la, &lb));
    let r = judge(ctx, rec, prop, f.name, got, &want, inputs_json(a, Some(bb)))?;
    Some(SE { l: r, m: want, class: "result" })
}

pub fn apply_un(ctx: &Ctx, rec: &mut Rec, prop: &str, f: &UnForm, a: &SE) -> Option<SE> {
    let c = &ctx.c;
    let want = match f.kind {
        UnKind::Neg => c.neg(&a.m),
        UnKind::Double => c.double(&a.m),
        UnKind::Id => a.m.clone(),
    };
    rec.form(f.name);
    rec.event(format!("call {} a={}", f.name, hex::encode(enc_quiet(&a.l))));
    let la = a.l;
    let got = guarded(|| (f.f)(&la));
    let r = judge(ctx, rec, prop, f.name, got, &want, inputs_json(a, None))?;
    Some(SE { l: r, m: want, class: "result" })
}

pub fn enc_quiet(e: &El) -> [u8; 32] {
    guarded(|| enc(e)).unwrap_or([0xee; 32])
}

pub fn run(ctx: &Ctx, rec: &mut Rec) {
    let bins = bin_forms();
    let uns = un_forms();
    let sums = sum_forms();
    for f in &bins {
        rec.declare_form(f.name);
    }
    for f in &uns {
        rec.declare_form(f.name);
    }
    for f in &sums {
        rec.declare_form(f.name);
    }
    for p in PARTNERS {
        rec.declare_class(&format!("partner:{p}"));
    }
    let mut zrng = rng_for(ctx.seed, P, 999, 0);
    let zoo = shadow_zoo(ctx, &mut zrng, ctx.scale(20, 80));
    rec.count("zoo_elements", zoo.len() as u64);

    // (i) form x operand-class matrix
    par(rec, |w, n, rec| {
        let mut rng = rng_for(ctx.seed, P, w, 1);
        let mut task = 0usize;
        for (ai, a) in zoo.iter().enumerate() {
            for pk in PARTNERS {
                task += 1;
                if task % n != w {
                    continue;
                }
                let bb = partner(ctx, a, pk, &zoo, &mut rng);
                rec.class(&format!("partner:{pk}"));
                rec.class(&format!("a:{}", a.class));
                for f in &bins {
                    rec.eval(&(f.name, a.key(), bb.key(), coords(&a.l).2.to_bytes_le(), coords(&bb.l).2.to_bytes_le()),
                        a.m.x == b(0) && bb.m.x == b(0));
                    let r = apply_bin(ctx, rec, P, f, a, &bb);
                    if ai < 2 && pk == "G" && f.name == "A + A" {
                        if let Some(r) = &r {
                            rec.sample(json!({"form": f.name, "a": el_json(&a.l), "b": el_json(&bb.l), "result_encoding": hex::encode(enc(&r.l))}));
                        }
                    }
                }
            }
            if ai % n == w {
                for f in &uns {
                    rec.eval(&(f.name, a.key(), coords(&a.l).2.to_bytes_le()), a.m.x == b(0));
                    apply_un(ctx, rec, P, f, a);
                }
            }
        }
    });

    // (i-b) sums over iterators
    par(rec, |w, n, rec| {
        let mut rng = rng_for(ctx.seed, P, w, 2);
        let lens = [0usize, 1, 2, 3, 5, 17];
        // long iterators: lengths around powers of two (chunked / pairwise / windowed summation
        // strategies switch at such sizes), odd and even, a few per run
        let long_lens = [31usize, 32, 33, 63, 64, 65, 127, 128, 129, 255, 256, 257, 301, 512, 513, 1000, 1023, 1025];
        let reps = ctx.scale(6, 60);
        for rep in 0..reps.max(n) {
            if rep % n != w {
                continue;
            }
            let mut these: Vec<usize> = if rep < reps { lens.to_vec() } else { vec![] };
            // every long length is covered once per run (spread over the workers), thorough: 4x
            for (li, l) in long_lens.iter().enumerate() {
                if li % n == w && rep < n * ctx.scale(1, 4) {
                    these.push(*l);
                }
            }
            for len in these {
                let items: Vec<SE> = (0..len).map(|_| zoo[rand_range(&mut rng, zoo.len())].clone()).collect();
                let mut want = ctx.c.identity();
                for it in &items {
                    want = ctx.c.add(&want, &it.m);
                }
                let ls: Vec<El> = items.iter().map(|s| s.l).collect();
                for f in &sums {
                    rec.form(f.name);
                    let keys: Vec<_> = items.iter().map(|s| s.key()).collect();
                    rec.eval(&(f.name, keys), len == 0);
                    let ls2 = ls.clone();
                    let got = guarded(|| (f.f)(&ls2));
                    judge(ctx, rec, P, f.name, got, &want, json!({"len": len, "items": items.iter().map(|s| el_json(&s.l)).collect::<Vec<_>>()}));
                }
            }
        }
    });

    // (i-c) sums with planted relations between neighbours: equal elements, the other coset member of
    //       the same element, an element and its negation, at every position of short lists (pairwise /
    //       batched summation strategies meet their exceptional cases on adjacent operands)
    par(rec, |w, n, rec| {
        let mut rng = rng_for(ctx.seed, P, w, 21);
        let reps = ctx.scale(48, 400);
        for rep in 0..reps {
            if rep % n != w {
                continue;
            }
            let len = 3 + rep % 7;
            let mut items: Vec<SE> = (0..len).map(|_| zoo[rand_range(&mut rng, zoo.len())].clone()).collect();
            // plant one or two relations
            for plant in 0..(1 + rep % 2) {
                let i = rand_range(&mut rng, len - 1);
                let j = if plant == 0 { i + 1 } else { rand_range(&mut rng, len) };
                let src = items[i].clone();
                items[j] = match (rep / 7 + plant) % 5 {
                    0 => src.clone(),
                    1 => SE { l: from_pt(&ctx.c, &ctx.c.torque(&src.m)), m: ctx.c.torque(&src.m), class: "planted other-rep" },
                    2 => SE { l: from_pt(&ctx.c, &ctx.c.neg(&src.m)), m: ctx.c.neg(&src.m), class: "planted negation" },
                    3 => SE { l: from_pt_scaled(&ctx.c, &src.m, &b(7 + rep as u64)), m: src.m.clone(), class: "planted rescaled copy" },
                    _ => SE { l: from_pt(&ctx.c, &ctx.c.torque(&ctx.c.neg(&src.m))), m: ctx.c.torque(&ctx.c.neg(&src.m)), class: "planted other-rep of negation" },
                };
            }
            // runs of three or four identical items
            if rep % 5 == 0 && len >= 4 {
                let run = 3 + rep % 2;
                let start = rand_range(&mut rng, len - run + 1);
                let src = items[start].clone();
                for k in 0..run {
                    items[start + k] = src.clone();
                }
            }
            // commuting partial sums: [.., P, Q, Q, P, ..]
            if rep % 3 == 0 && len >= 6 {
                let (p, q) = (items[0].clone(), items[1].clone());
                items[len - 4] = p.clone();
                items[len - 3] = q.clone();
                items[len - 2] = q;
                items[len - 1] = p;
            }
            let mut want = ctx.c.identity();
            for it in &items {
                want = ctx.c.add(&want, &it.m);
            }
            let ls: Vec<El> = items.iter().map(|s| s.l).collect();
            for f in &sums {
                rec.form(f.name);
                rec.eval(&("planted", f.name, items.iter().map(|s| s.key()).collect::<Vec<_>>()), false);
                rec.count("sums_with_planted_neighbours", 1);
                let ls2 = ls.clone();
                let got = guarded(|| (f.f)(&ls2));
                judge(ctx, rec, P, f.name, got, &want, json!({"len": len, "planted": true, "items": items.iter().map(|s| el_json(&s.l)).collect::<Vec<_>>()}));
            }
        }
    });

    // (ii) algebraic laws through the library's own == (no model): association, commutation,
    //      neutral element, P - P
    par(rec, |w, n, rec| {
        let mut rng = rng_for(ctx.seed, P, w, 3);
        let reps = ctx.scale(3000, 40000);
        for rep in 0..reps {
            if rep % n != w {
                continue;
            }
            let a = &zoo[rand_range(&mut rng, zoo.len())];
            let bb = &zoo[rand_range(&mut rng, zoo.len())];
            let cc = &zoo[rand_range(&mut rng, zoo.len())];
            let f1 = &bins[rand_range(&mut rng, bins.len())];
            let f2 = &bins[rand_range(&mut rng, bins.len())];
            rec.eval(&("laws", a.key(), bb.key(), cc.key()), false);
            let (la, lb, lc) = (a.l, bb.l, cc.l);
            let res = guarded(|| {
                let mut bad: Vec<&'static str> = Vec::new();
                if (la + lb) + lc != la + (lb + lc) {
                    bad.push("association");
                }
                if la + lb != lb + la {
                    bad.push("commutation");
                }
                if la + El::IDENTITY != la {
                    bad.push("neutral");
                }
                if !(la - la).is_identity() {
                    bad.push("P-P");
                }
                if enc(&((la + lb) + lc)) != enc(&(la + (lb + lc))) {
                    bad.push("association-encoding");
                }
                // two random forms of the same kind must agree with each other
                if f1.kind == f2.kind && (f1.f)(&la, &lb) != (f2.f)(&la, &lb) {
                    bad.push("forms-disagree");
                }
                bad
            });
            rec.count("law_checks", 6);
            match res {
                Err(p) => rec.violation(format!("{P}:laws:panic"), format!("panic in law check: {p}"), inputs_json(a, Some(bb))),
                Ok(bad) => {
                    for law in bad {
                        rec.violation(format!("{P}:laws:{law}"), format!("law {law} failed (forms {} / {})", f1.name, f2.name),
                            json!({"a": el_json(&a.l), "b": el_json(&bb.l), "c": el_json(&cc.l)}));
                    }
                }
            }
        }
    });

    // (iii) straight-line programs mixing all forms
    let nprog = ctx.scale(3000, 60000);
    par(rec, |w, n, rec| {
        let mut rng = rng_for(ctx.seed, P, w, 4);
        for pi in 0..nprog {
            if pi % n != w {
                continue;
            }
            let len = 4 + rand_range(&mut rng, 37);
            let regs = run_program(ctx, rec, P, &mut rng, &zoo, len, true);
            rec.count("programs", 1);
            rec.count("program_steps", len as u64);
            if pi < 2 {
                rec.sample(json!({"program_len": len, "final_registers": regs.iter().take(3).map(|r| hex::encode(enc_quiet(&r.l))).collect::<Vec<_>>()}));
            }
        }
    });
    // (iv) object-lifecycle programs: in-place forms on persistent objects of every provenance
    par(rec, |w, n, rec| crate::life::programs(ctx, rec, P, crate::life::DENOTE, w, n, ctx.scale(1500, 30000), &zoo));
    rec.check_coverage();
}

/// Random straight-line program over a register file of shadowed elements, mixing all
/// operator forms (including scalar multiplications by small and random scalars).
/// `judged`: compare every step with the model (C04/C05); otherwise the model point is
/// re-derived from the library value (used by properties that only need elements that
/// are products of earlier operations).
pub fn run_program(ctx: &Ctx, rec: &mut Rec, prop: &str, rng: &mut impl RngCore, zoo: &[SE], len: usize, judged: bool) -> Vec<SE> {
    let c = &ctx.c;
    let bins = bin_forms();
    let uns = un_forms();
    let sums = sum_forms();
    let muls = mul_forms();
    let mut regs: Vec<SE> = (0..4).map(|_| zoo[rand_range(rng, zoo.len())].clone()).collect();
    for _ in 0..len {
        let a = regs[rand_range(rng, regs.len())].clone();
        let bb = regs[rand_range(rng, regs.len())].clone();
        let choice = rand_range(rng, 100);
        let out: Option<SE> = if choice < 55 {
            let f = &bins[rand_range(rng, bins.len())];
            if judged {
                rec.evals += 1;
                apply_bin(ctx, rec, prop, f, &a, &bb)
            } else {
                derive(ctx, guarded(|| (f.f)(&a.l, &bb.l)))
            }
        } else if choice < 75 {
            let f = &uns[rand_range(rng, uns.len())];
            if judged {
                rec.evals += 1;
                apply_un(ctx, rec, prop, f, &a)
            } else {
                derive(ctx, guarded(|| (f.f)(&a.l)))
            }
        } else if choice < 85 && !sums.is_empty() {
            let f = &sums[rand_range(rng, sums.len())];
            let k = rand_range(rng, 4);
            let items: Vec<SE> = (0..k).map(|_| regs[rand_range(rng, regs.len())].clone()).collect();
            let ls: Vec<El> = items.iter().map(|s| s.l).collect();
            let got = guarded(|| (f.f)(&ls));
            if judged {
                rec.evals += 1;
                rec.form(f.name);
                let mut want = c.identity();
                for it in &items {
                    want = c.add(&want, &it.m);
                }
                judge(ctx, rec, prop, f.name, got, &want, json!({"program_step": "sum", "len": k})).map(|l| SE { l, m: want, class: "result" })
            } else {
                derive(ctx, got)
            }
        } else {
            let f = &muls[rand_range(rng, muls.len())];
            let k = match rand_range(rng, 4) {
                0 => b(rand_range(rng, 5) as u64),
                1 => &ctx.c.r - b(1 + rand_range(rng, 3) as u64),
                _ => rand_below(rng, &ctx.c.r),
            };
            let lk = fr(&k);
            let got = guarded(|| (f.f)(&a.l, &lk));
            if judged {
                rec.evals += 1;
                let want = c.mul(&k, &a.m);
                judge(ctx, rec, prop, f.name, got, &want, json!({"program_step": "mul", "k": crate::model::hexs(&k), "a": el_json(&a.l)}))
                    .map(|l| SE { l, m: want, class: "result" })
            } else {
                derive(ctx, got)
            }
        };
        if let Some(o) = out {
            let idx = rand_range(rng, 6);
            if idx < regs.len() {
                regs[idx] = o;
            } else {
                regs.push(o);
            }
        }
    }
    regs
}

fn derive(ctx: &Ctx, got: Result<El, String>) -> Option<SE> {
    let l = got.ok()?;
    let m = affine_of(&ctx.c, &l).ok()?;
    Some(SE { l, m, class: "program-register" })
}
