//! Operator-form catalogue for group elements: every way the library offers to add,
//! subtract, negate, double, sum and scalar-multiply, by name. Each form maps library
//! `Element`s to a library `Element` (affine results are converted back), so that one
//! oracle serves all forms.
#![allow(dead_code)]
use crate::ad::*;

#[derive(Clone, Copy, PartialEq, Eq, Debug)]
pub enum BinKind {
    Add,
    Sub,
}
#[derive(Clone, Copy, PartialEq, Eq, Debug)]
pub enum UnKind {
    Neg,
    Double,
    Id,
}
pub struct BinForm {
    pub name: &'static str,
    pub kind: BinKind,
    pub f: fn(&El, &El) -> El,
}
pub struct UnForm {
    pub name: &'static str,
    pub kind: UnKind,
    pub f: fn(&El) -> El,
}
pub struct SumForm {
    pub name: &'static str,
    pub f: fn(&[El]) -> El,
}
/// scalar given as a field element
pub struct MulForm {
    pub name: &'static str,
    pub f: fn(&El, &Fr) -> El,
}
/// scalar given as little-endian u64 limbs of arbitrary length
pub struct MulIntForm {
    pub name: &'static str,
    pub f: fn(&El, &[u64]) -> El,
}
/// multi-scalar forms: (points, scalars) of equal length
pub struct MsmForm {
    pub name: &'static str,
    pub f: fn(&[El], &[Fr]) -> El,
}

macro_rules! bf {
    ($v:ident, $name:expr, $kind:ident, |$a:ident, $b:ident| $body:expr) => {
        $v.push(BinForm { name: $name, kind: BinKind::$kind, f: |$a: &El, $b: &El| -> El { $body } });
    };
}
macro_rules! uf {
    ($v:ident, $name:expr, $kind:ident, |$a:ident| $body:expr) => {
        $v.push(UnForm { name: $name, kind: UnKind::$kind, f: |$a: &El| -> El { $body } });
    };
}
macro_rules! mf {
    ($v:ident, $name:expr, |$a:ident, $k:ident| $body:expr) => {
        $v.push(MulForm { name: $name, f: |$a: &El, $k: &Fr| -> El { $body } });
    };
}

#[cfg(feature = "ark")]
mod imp {
    use super::*;
    use ark_ec::{AffineRepr, CurveGroup, Group, VariableBaseMSM};
    use ark_ff::PrimeField;
    pub type Af = <El as CurveGroup>::Affine;

    pub fn af(e: &El) -> Af {
        (*e).into()
    }

    pub fn bin_forms() -> Vec<BinForm> {
        let mut v = Vec::new();
        // Element x Element
        bf!(v, "&E + &E", Add, |a, b| a + b);
        bf!(v, "E + &E", Add, |a, b| *a + b);
        bf!(v, "&E + E", Add, |a, b| a + *b);
        bf!(v, "E + E", Add, |a, b| *a + *b);
        bf!(v, "E += &E", Add, |a, b| { let mut x = *a; x += b; x });
        bf!(v, "E += E", Add, |a, b| { let mut x = *a; x += *b; x });
        bf!(v, "&E - &E", Sub, |a, b| a - b);
        bf!(v, "E - &E", Sub, |a, b| *a - b);
        bf!(v, "&E - E", Sub, |a, b| a - *b);
        bf!(v, "E - E", Sub, |a, b| *a - *b);
        bf!(v, "E -= &E", Sub, |a, b| { let mut x = *a; x -= b; x });
        bf!(v, "E -= E", Sub, |a, b| { let mut x = *a; x -= *b; x });
        // Element x AffinePoint
        bf!(v, "E + &A", Add, |a, b| *a + &af(b));
        bf!(v, "E + A", Add, |a, b| *a + af(b));
        bf!(v, "E += &A", Add, |a, b| { let mut x = *a; x += &af(b); x });
        bf!(v, "E += A", Add, |a, b| { let mut x = *a; x += af(b); x });
        bf!(v, "E - &A", Sub, |a, b| *a - &af(b));
        bf!(v, "E - A", Sub, |a, b| *a - af(b));
        bf!(v, "E -= &A", Sub, |a, b| { let mut x = *a; x -= &af(b); x });
        bf!(v, "E -= A", Sub, |a, b| { let mut x = *a; x -= af(b); x });
        // AffinePoint x AffinePoint
        bf!(v, "&A + &A", Add, |a, b| (&af(a) + &af(b)).into());
        bf!(v, "A + &A", Add, |a, b| af(a) + &af(b));
        bf!(v, "&A + A", Add, |a, b| (&af(a) + af(b)).into());
        bf!(v, "A + A", Add, |a, b| af(a) + af(b));
        bf!(v, "A += &A", Add, |a, b| { let mut x = af(a); x += &af(b); x.into() });
        bf!(v, "A += A", Add, |a, b| { let mut x = af(a); x += af(b); x.into() });
        bf!(v, "&A - &A", Sub, |a, b| (&af(a) - &af(b)).into());
        bf!(v, "A - &A", Sub, |a, b| (af(a) - &af(b)).into());
        bf!(v, "&A - A", Sub, |a, b| (&af(a) - af(b)).into());
        bf!(v, "A - A", Sub, |a, b| (af(a) - af(b)).into());
        bf!(v, "A -= &A", Sub, |a, b| { let mut x = af(a); x -= &af(b); x.into() });
        bf!(v, "A -= A", Sub, |a, b| { let mut x = af(a); x -= af(b); x.into() });
        // AffinePoint x Element
        bf!(v, "A + E", Add, |a, b| af(a) + *b);
        bf!(v, "A + &E", Add, |a, b| af(a) + b);
        v
    }

    pub fn un_forms() -> Vec<UnForm> {
        let mut v = Vec::new();
        uf!(v, "-E", Neg, |a| -*a);
        uf!(v, "E.negate()", Neg, |a| a.negate());
        uf!(v, "-A", Neg, |a| (-af(a)).into());
        uf!(v, "Group::double", Double, |a| Group::double(a));
        uf!(v, "Group::double_in_place", Double, |a| { let mut x = *a; x.double_in_place(); x });
        uf!(v, "into_affine().into_group()", Id, |a| a.into_affine().into_group());
        uf!(v, "From<&Element> for AffinePoint / From<&AffinePoint> for Element", Id, |a| { let p: Af = a.into(); (&p).into() });
        uf!(v, "clear_cofactor", Id, |a| af(a).clear_cofactor().into());
        uf!(v, "mul_by_cofactor_to_group", Id, |a| af(a).mul_by_cofactor_to_group());
        uf!(v, "mul_by_cofactor", Id, |a| af(a).mul_by_cofactor().into());
        uf!(v, "mul_by_cofactor_inv", Id, |a| af(a).mul_by_cofactor_inv().into());
        uf!(v, "normalize_batch[1]", Id, |a| El::normalize_batch(&[*a])[0].into());
        v
    }

    pub fn sum_forms() -> Vec<SumForm> {
        vec![
            SumForm { name: "Sum<Element>", f: |l| l.iter().copied().sum() },
            SumForm { name: "Sum<&Element>", f: |l| l.iter().sum() },
            SumForm { name: "Sum<AffinePoint>", f: |l| l.iter().map(af).sum() },
            SumForm { name: "Sum<&AffinePoint>", f: |l| { let a: Vec<Af> = l.iter().map(af).collect(); a.iter().sum() } },
            // iterators whose size_hint lower bound is 0 although they yield items
            SumForm { name: "Sum<Element> over filter()", f: |l| l.iter().copied().filter(|_| true).sum() },
            SumForm { name: "Sum<&Element> over filter()", f: |l| l.iter().filter(|_| true).sum() },
            SumForm { name: "Sum<AffinePoint> over flat_map()", f: |l| l.iter().flat_map(|e| Some(af(e))).sum() },
            SumForm { name: "Sum<Element> over chain(skip_while)", f: |l| l.iter().copied().skip_while(|_| false).chain(std::iter::empty()).sum() },
            SumForm { name: "Sum<Element> over from_fn", f: |l| { let mut i = 0; std::iter::from_fn(|| { let r = l.get(i).copied(); i += 1; r }).sum() } },
            // references into a table: equal items are the *same* reference (runs of pointer-identical items)
            SumForm { name: "Sum<&AffinePoint> over references into a deduplicated table", f: |l| {
                let mut table: Vec<Af> = Vec::new();
                let mut idx: Vec<usize> = Vec::new();
                for e in l {
                    let a = af(e);
                    match table.iter().position(|t| t.xy() == a.xy()) {
                        Some(i) => idx.push(i),
                        None => { table.push(a); idx.push(table.len() - 1); }
                    }
                }
                idx.iter().map(|i| &table[*i]).sum()
            } },
            SumForm { name: "Sum<&Element> over references into a deduplicated table", f: |l| {
                let mut table: Vec<El> = Vec::new();
                let mut idx: Vec<usize> = Vec::new();
                for e in l {
                    match table.iter().position(|t| t.verif_xyzt() == e.verif_xyzt()) {
                        Some(i) => idx.push(i),
                        None => { table.push(*e); idx.push(table.len() - 1); }
                    }
                }
                idx.iter().map(|i| &table[*i]).sum()
            } },
            // call shapes: a sum whose iterator itself computes sums (re-entrancy of any scratch state)
            SumForm { name: "Sum<Element> of row sums (nested Sum<Element>)", f: |l| l.chunks(3).map(|r| r.iter().copied().sum::<El>()).sum() },
            SumForm { name: "Sum<&Element> of row sums (nested, collected rows of &Element)", f: |l| { let rows: Vec<El> = l.chunks(2).map(|r| r.iter().sum::<El>()).collect(); rows.iter().chain(std::iter::empty()).sum() } },
            SumForm { name: "Sum<AffinePoint> of lazily computed row sums (nested Sum<&AffinePoint>)", f: |l| { let a: Vec<Af> = l.iter().map(af).collect(); a.chunks(4).map(|r| af(&r.iter().sum::<El>())).sum() } },
            SumForm { name: "Sum<Element> inside Sum<Element> inside Sum<Element>", f: |l| l.chunks(4).map(|r| r.chunks(2).map(|q| q.iter().copied().sum::<El>()).sum::<El>()).sum() },
        ]
    }

    pub fn mul_forms() -> Vec<MulForm> {
        let mut v = Vec::new();
        mf!(v, "E *= &Fr", |a, k| { let mut x = *a; x *= k; x });
        mf!(v, "E *= Fr", |a, k| { let mut x = *a; x *= *k; x });
        mf!(v, "&E * &Fr", |a, k| a * k);
        mf!(v, "&Fr * &E", |a, k| k * a);
        mf!(v, "E * &Fr", |a, k| *a * k);
        mf!(v, "&E * Fr", |a, k| a * *k);
        mf!(v, "E * Fr", |a, k| *a * *k);
        mf!(v, "Fr * &E", |a, k| *k * a);
        mf!(v, "&Fr * E", |a, k| k * *a);
        mf!(v, "Fr * E", |a, k| *k * *a);
        mf!(v, "A *= &Fr", |a, k| { let mut x = af(a); x *= k; x.into() });
        mf!(v, "A *= Fr", |a, k| { let mut x = af(a); x *= *k; x.into() });
        mf!(v, "&A * &Fr", |a, k| (&af(a) * k).into());
        mf!(v, "&Fr * &A", |a, k| (k * &af(a)).into());
        mf!(v, "A * &Fr", |a, k| af(a) * k);
        mf!(v, "&A * Fr", |a, k| (&af(a) * *k).into());
        mf!(v, "A * Fr", |a, k| af(a) * *k);
        mf!(v, "Fr * &A", |a, k| (*k * &af(a)).into());
        mf!(v, "&Fr * A", |a, k| (k * af(a)).into());
        mf!(v, "Fr * A", |a, k| (*k * af(a)).into());
        mf!(v, "vartime_multiscalar_mul[1]", |a, k| El::vartime_multiscalar_mul([k], [a]));
        mf!(v, "msm[1]", |a, k| El::msm(&[af(a)], &[*k]).expect("equal lengths"));
        mf!(v, "Group::mul_bigint(into_bigint)", |a, k| Group::mul_bigint(a, k.into_bigint()));
        mf!(v, "AffineRepr::mul_bigint(into_bigint)", |a, k| AffineRepr::mul_bigint(&af(a), k.into_bigint()));
        mf!(v, "Group::mul_bits_be", |a, k| {
            use ark_ff::BitIteratorBE;
            a.mul_bits_be(BitIteratorBE::new(k.into_bigint()))
        });
        v
    }

    pub fn mulint_forms() -> Vec<MulIntForm> {
        vec![
            MulIntForm { name: "Group::mul_bigint", f: |a, l| Group::mul_bigint(a, l) },
            MulIntForm { name: "AffineRepr::mul_bigint", f: |a, l| AffineRepr::mul_bigint(&af(a), l) },
        ]
    }

    pub fn msm_forms() -> Vec<MsmForm> {
        vec![
            MsmForm { name: "vartime_multiscalar_mul", f: |p, s| El::vartime_multiscalar_mul(s.iter(), p.iter()) },
            MsmForm { name: "vartime_multiscalar_mul(owned)", f: |p, s| El::vartime_multiscalar_mul(s.iter().copied(), p.iter().copied()) },
            // iterators that under-report their length (size_hint lower bound 0) or are not ExactSize
            MsmForm { name: "vartime_multiscalar_mul(filter iterators)", f: |p, s| El::vartime_multiscalar_mul(s.iter().filter(|_| true), p.iter().filter(|_| true)) },
            MsmForm { name: "vartime_multiscalar_mul(from_fn / flat_map iterators)", f: |p, s| {
                let mut i = 0;
                let sc = std::iter::from_fn(|| { let r = s.get(i).copied(); i += 1; r });
                El::vartime_multiscalar_mul(sc, p.iter().flat_map(|e| Some(*e)))
            } },
            MsmForm { name: "vartime_multiscalar_mul(chain / take_while iterators)", f: |p, s| {
                let h = s.len() / 2;
                El::vartime_multiscalar_mul(s[..h].iter().chain(s[h..].iter()), p.iter().take_while(|_| true))
            } },
            // re-entrant call shape: the points are produced lazily by inner multiscalar multiplications
            MsmForm { name: "vartime_multiscalar_mul(points computed by nested vartime_multiscalar_mul)", f: |p, s| {
                let one = [Fr::ONE];
                El::vartime_multiscalar_mul(s.iter(), p.iter().map(|e| El::vartime_multiscalar_mul(one.iter(), [*e].iter())))
            } },
            MsmForm { name: "vartime_multiscalar_mul(scalars computed during iteration by a nested call)", f: |p, s| {
                let g = El::GENERATOR;
                El::vartime_multiscalar_mul(s.iter().map(|k| { let _ = El::vartime_multiscalar_mul([*k].iter(), [g].iter()); *k }), p.iter().copied())
            } },
            MsmForm { name: "VariableBaseMSM::msm", f: |p, s| {
                let bases = El::normalize_batch(p);
                El::msm(&bases, s).expect("equal lengths")
            } },
            MsmForm { name: "VariableBaseMSM::msm_unchecked", f: |p, s| {
                let bases: Vec<Af> = p.iter().map(af).collect();
                El::msm_unchecked(&bases, s)
            } },
            MsmForm { name: "VariableBaseMSM::msm_bigint", f: |p, s| {
                use ark_ec::ScalarMul;
                let bases = El::batch_convert_to_mul_base(p);
                let bi: Vec<_> = s.iter().map(|x| x.into_bigint()).collect();
                El::msm_bigint(&bases, &bi)
            } },
            // mismatched lengths: the unchecked entry points chop both lists to the common prefix (documented in
            // ark-ec); the harness hands over extra bases resp. extra scalars and expects the sum over the prefix
            MsmForm { name: "VariableBaseMSM::msm_unchecked (extra bases)", f: |p, s| {
                let mut bases: Vec<Af> = p.iter().map(af).collect();
                bases.push(af(&El::GENERATOR));
                bases.extend(p.iter().take(3).map(af));
                El::msm_unchecked(&bases, s)
            } },
            MsmForm { name: "VariableBaseMSM::msm_unchecked (extra scalars)", f: |p, s| {
                let bases: Vec<Af> = p.iter().map(af).collect();
                let mut sc = s.to_vec();
                sc.push(Fr::from(5u64));
                sc.extend(s.iter().take(2).copied());
                El::msm_unchecked(&bases, &sc)
            } },
            MsmForm { name: "VariableBaseMSM::msm_bigint (extra bases)", f: |p, s| {
                let mut bases: Vec<Af> = p.iter().map(af).collect();
                bases.push(af(&(El::GENERATOR + El::GENERATOR)));
                bases.extend(p.iter().take(2).map(af));
                let bi: Vec<_> = s.iter().map(|x| x.into_bigint()).collect();
                El::msm_bigint(&bases, &bi)
            } },
            MsmForm { name: "VariableBaseMSM::msm (mismatched lengths must be refused)", f: |p, s| {
                let mut bases: Vec<Af> = p.iter().map(af).collect();
                bases.push(af(&El::GENERATOR));
                match El::msm(&bases, s) {
                    Err(_) => El::msm_unchecked(&bases[..p.len()], s),
                    Ok(_) => El::GENERATOR * Fr::from(0xBADu64) + El::msm_unchecked(&bases[..p.len()], s),
                }
            } },
            MsmForm { name: "VariableBaseMSM::msm_chunks", f: |p, s| {
                let bases: Vec<Af> = p.iter().map(af).collect();
                El::msm_chunks(&bases.as_slice(), &s)
            } },
        ]
    }
}

#[cfg(feature = "min")]
mod imp {
    use super::*;
    use subtle::{Choice, ConditionallySelectable};

    pub fn bin_forms() -> Vec<BinForm> {
        let mut v = Vec::new();
        bf!(v, "&E + &E", Add, |a, b| a + b);
        bf!(v, "E + &E", Add, |a, b| *a + b);
        bf!(v, "&E + E", Add, |a, b| a + *b);
        bf!(v, "E + E", Add, |a, b| *a + *b);
        bf!(v, "E += &E", Add, |a, b| { let mut x = *a; x += b; x });
        bf!(v, "E += E", Add, |a, b| { let mut x = *a; x += *b; x });
        bf!(v, "&E - &E", Sub, |a, b| a - b);
        bf!(v, "E - &E", Sub, |a, b| *a - b);
        bf!(v, "&E - E", Sub, |a, b| a - *b);
        bf!(v, "E - E", Sub, |a, b| *a - *b);
        bf!(v, "E -= &E", Sub, |a, b| { let mut x = *a; x -= b; x });
        bf!(v, "E -= E", Sub, |a, b| { let mut x = *a; x -= *b; x });
        v
    }
    pub fn un_forms() -> Vec<UnForm> {
        let mut v = Vec::new();
        uf!(v, "-E", Neg, |a| -*a);
        uf!(v, "E.double()", Double, |a| a.double());
        uf!(v, "conditional_select(a, G, 0)", Id, |a| El::conditional_select(a, &El::GENERATOR, Choice::from(0)));
        uf!(v, "conditional_select(G, a, 1)", Id, |a| El::conditional_select(&El::GENERATOR, a, Choice::from(1)));
        v
    }
    pub fn sum_forms() -> Vec<SumForm> {
        vec![]
    }
    pub fn mul_forms() -> Vec<MulForm> {
        let mut v = Vec::new();
        mf!(v, "E * Fr", |a, k| *a * *k);
        mf!(v, "E *= &Fr", |a, k| { let mut x = *a; x *= k; x });
        mf!(v, "E *= Fr", |a, k| { let mut x = *a; x *= *k; x });
        mf!(v, "&E * &Fr", |a, k| a * k);
        mf!(v, "&Fr * &E", |a, k| k * a);
        mf!(v, "E * &Fr", |a, k| *a * k);
        mf!(v, "&E * Fr", |a, k| a * *k);
        mf!(v, "Fr * &E", |a, k| *k * a);
        mf!(v, "&Fr * E", |a, k| k * *a);
        mf!(v, "Fr * E", |a, k| *k * *a);
        v
    }
    pub fn mulint_forms() -> Vec<MulIntForm> {
        vec![
            MulIntForm { name: "scalar_mul (CT)", f: |a, l| a.scalar_mul(l) },
            MulIntForm { name: "scalar_mul_vartime", f: |a, l| a.scalar_mul_vartime(l) },
        ]
    }
    pub fn msm_forms() -> Vec<MsmForm> {
        vec![]
    }
}

pub use imp::*;
