//! dvharness — runtime monitors for decaf377 (one binary per build: `ark` / `min`).
//!
//! usage: dvharness <property|selftest|transcript|constants> [--tier quick|thorough]
//!                  [--seed N] [--out FILE] [extra args]
//! Exit status: 0 = ran (verdict is in the JSON), 2 = harness error / inconclusive.
//! The python driver `/verif/check` turns the JSON into VIOLATION / KNOWN-FINDING lines.
#[cfg(all(feature = "ark", feature = "min"))]
compile_error!("features `ark` and `min` are mutually exclusive");
#[cfg(not(any(feature = "ark", feature = "min")))]
compile_error!("enable exactly one of the features `ark` / `min`");

mod ad;
mod c04;
mod c05;
mod c06;
mod c07;
mod c08;
mod encp;
mod eng;
mod poly;
mod fld;
mod c09;
mod c10;
mod c11;
#[cfg(feature = "ark")]
mod c13;
#[cfg(feature = "ark")]
mod c14;
#[cfg(feature = "ark")]
mod c15;
#[cfg(feature = "ark")]
mod r1;
#[cfg(feature = "ark")]
mod tamper;
#[cfg(feature = "ark")]
mod c16;
mod constants;
mod grp;
mod life;
mod model;
mod mon;
mod sh;
mod transcript;
mod zoo;

use serde_json::json;
use std::time::Instant;

fn main() {
    let args: Vec<String> = std::env::args().collect();
    if args.len() < 2 {
        eprintln!("usage: dvharness <property> [--tier quick|thorough] [--seed N] [--out FILE]");
        std::process::exit(2);
    }
    let cmd = args[1].clone();
    let mut tier = "quick".to_string();
    let mut seed: u64 = 1;
    let mut out: Option<String> = None;
    let mut rest: Vec<String> = Vec::new();
    let mut i = 2;
    while i < args.len() {
        match args[i].as_str() {
            "--tier" => {
                tier = args[i + 1].clone();
                i += 2;
            }
            "--seed" => {
                seed = args[i + 1].parse().expect("seed");
                i += 2;
            }
            "--out" => {
                out = Some(args[i + 1].clone());
                i += 2;
            }
            _ => {
                rest.push(args[i].clone());
                i += 1;
            }
        }
    }
    let _ = &rest;
    let t0 = Instant::now();
    // memory guard: a workload that makes the process grow without bound (e.g. constraint systems kept
    // alive by a reference cycle in the code under test) must end as an inconclusive run with a reason,
    // not as an out-of-memory kill of this or of unrelated processes
    {
        let out2 = out.clone();
        let (cmd_mg, tier_mg, seed_mg) = (cmd.clone(), tier.clone(), seed);
        let limit_kib: u64 = std::env::var("VERIF_MEM_LIMIT_GIB").ok().and_then(|v| v.parse().ok()).unwrap_or(20) * 1024 * 1024;
        std::thread::spawn(move || loop {
            std::thread::sleep(std::time::Duration::from_millis(500));
            if let Ok(s) = std::fs::read_to_string("/proc/self/status") {
                if let Some(l) = s.lines().find(|l| l.starts_with("VmRSS:")) {
                    let kib: u64 = l.split_whitespace().nth(1).and_then(|x| x.parse().ok()).unwrap_or(0);
                    if kib > limit_kib {
                        let why = format!("memory guard: resident set grew to {} GiB (limit {} GiB) - the workload leaks or retains memory; run aborted", kib / 1024 / 1024, limit_kib / 1024 / 1024);
                        let seen: Vec<(String, String)> = mon::VIOL_LOG.lock().map(|g| g.clone()).unwrap_or_default();
                        if !seen.is_empty() {
                            // violations already observed stand; the rest of the run is inconclusive
                            let sigs: serde_json::Map<String, serde_json::Value> = seen.iter().map(|(s0, _)| (s0.clone(), json!(1))).collect();
                            let v = json!({
                                "evaluations": seen.len(), "distinct_nontrivial": seen.len(), "violation_count": seen.len(),
                                "violation_signatures": sigs,
                                "violations": seen.iter().map(|(s0, w)| json!({"sig": s0, "what": format!("{w} [reported from a run cut short: {why}]"), "detail": {}, "events": []})).collect::<Vec<_>>(),
                                "forms": {}, "edge_classes": {}, "counters": {}, "samples": [], "inconclusive": [why.clone()],
                                "property": cmd_mg.clone(), "build": ad::BUILD, "tier": tier_mg.clone(), "seed": seed_mg, "wall_s": 0.0,
                            });
                            emit(&out2, &v);
                            eprintln!("VIOLATION(s) seen before the memory guard fired");
                            std::process::exit(0);
                        }
                        let v = json!({"harness_error": why});
                        emit(&out2, &v);
                        eprintln!("INCONCLUSIVE: memory guard fired");
                        std::process::exit(2);
                    }
                }
            }
        });
    }
    // hang watchdog (see mon.rs): a single library call running for hang_secs() ends the run with a violation
    {
        let hang_secs = mon::hang_secs();
        let (out2, cmd2, tier2) = (out.clone(), cmd.clone(), tier.clone());
        std::thread::spawn(move || loop {
            std::thread::sleep(std::time::Duration::from_secs(1));
            let now = mon::TICK.fetch_add(1, std::sync::atomic::Ordering::Relaxed) + 1;
            for (slot, s) in mon::SLOTS.iter().enumerate() {
                let entered = s.load(std::sync::atomic::Ordering::Relaxed);
                if entered != 0 && now.saturating_sub(entered) > hang_secs {
                    let last = mon::LAST_EVENT.lock().ok().and_then(|g| g.get(slot).cloned()).unwrap_or_default();
                    let sig = format!("{cmd2}:library-call-does-not-return");
                    let v = json!({
                        "evaluations": 1, "distinct_nontrivial": 1, "violation_count": 1,
                        "violation_signatures": {sig.clone(): 1},
                        "violations": [{"sig": sig, "what": format!("a library call has not returned for more than {} s (worker slot {slot}); last event recorded by that worker: {last}", hang_secs), "detail": {"last_event": last}, "events": []}],
                        "forms": {}, "edge_classes": {}, "counters": {}, "samples": [], "inconclusive": [],
                        "property": cmd2, "build": ad::BUILD, "tier": tier2, "seed": seed, "wall_s": 0.0,
                    });
                    emit(&out2, &v);
                    eprintln!("VIOLATION (hang): {last}");
                    std::process::exit(0);
                }
            }
        });
    }
    let ctx = sh::Ctx::new(seed, tier == "thorough");
    // Oracle self-test against data that does not come from the code under test.
    let notes = match model::self_test(&ctx.c) {
        Ok(n) => n,
        Err(e) => {
            let v = json!({"harness_error": format!("oracle self-test failed: {e}")});
            emit(&out, &v);
            eprintln!("INCONCLUSIVE: oracle self-test failed: {e}");
            std::process::exit(2);
        }
    };
    if cmd == "selftest" {
        println!("oracle self-test ok: {notes:?}");
        return;
    }
    if std::env::var("VERIF_DEBUG").is_err() {
        mon::silence_panics();
    }
    let mut rec = mon::Rec::new();
    let mut extra: Option<serde_json::Value> = None;
    match cmd.as_str() {
        "C01" => encp::run_c01(&ctx, &mut rec),
        "C02" => encp::run_c02(&ctx, &mut rec),
        "C03" => encp::run_c03(&ctx, &mut rec),
        "C04" => c04::run(&ctx, &mut rec),
        "C05" => c05::run(&ctx, &mut rec),
        "C06" => c06::run(&ctx, &mut rec),
        "C07" => c07::run(&ctx, &mut rec),
        "C08" => c08::run(&ctx, &mut rec),
        "C09" => c09::run(&ctx, &mut rec),
        "lazyinit" => c09::run_lazyinit(&ctx, &mut rec),
        "C10" => c10::run(&ctx, &mut rec),
        "C11" => c11::run(&ctx, &mut rec),
        #[cfg(feature = "ark")]
        "C13" => c13::run(&ctx, &mut rec),
        #[cfg(feature = "ark")]
        "C14" => c14::run(&ctx, &mut rec),
        #[cfg(feature = "ark")]
        "C15" => c15::run(&ctx, &mut rec),
        #[cfg(feature = "ark")]
        "C16" => c16::run(&ctx, &mut rec),
        "constants" => extra = Some(constants::run(&ctx, &mut rec)),
        "transcript" => transcript::run(&ctx, &mut rec, out.as_deref().expect("--out required")),
        other => {
            eprintln!("unknown command {other}");
            std::process::exit(2);
        }
    }
    {
        let cp = ad::CONVERSION_PANICS.lock().unwrap();
        if let Some(first) = cp.first() {
            rec.violation(
                format!("{cmd}:library-panic-in-canonical-conversion"),
                format!("the library panicked while converting a canonical field value ({} occurrences), e.g. {first}", cp.len()),
                json!({"occurrences": cp.clone()}),
            );
        }
    }
    let mut v = rec.to_json();
    if let Some(e) = extra {
        v["x_dump"] = e;
    }
    v["property"] = json!(cmd);
    v["build"] = json!(ad::BUILD);
    v["tier"] = json!(tier);
    v["seed"] = json!(seed);
    v["wall_s"] = json!(t0.elapsed().as_secs_f64());
    v["oracle_self_test"] = json!(notes);
    emit(&out, &v);
    eprintln!(
        "[{} {} {}] evaluations={} distinct={} violations={} inconclusive={:?} wall={:.1}s",
        cmd,
        ad::BUILD,
        tier,
        rec.evals,
        rec.distinct.len(),
        rec.violation_count,
        rec.inconclusive,
        t0.elapsed().as_secs_f64()
    );
}

fn emit(out: &Option<String>, v: &serde_json::Value) {
    let s = serde_json::to_string_pretty(v).unwrap();
    match out {
        Some(p) => std::fs::write(p, s).expect("write result"),
        None => println!("{s}"),
    }
}
