//! C13 — R1CS gadgets compute what the native code computes, and are complete; lazy forcing
//! histories change neither values nor constraints already emitted.
use crate::ad::*;
use crate::model::{b, hexs, B};
use crate::mon::{guarded, par, rng_for, Rec};
use crate::r1::*;
use crate::sh::*;
use crate::zoo::{field_zoo, rand_below};
use ark_r1cs_std::prelude::*;
use ark_r1cs_std::R1CSVar;
use decaf377::r1cs::{ElementVar, FqVar};
use serde_json::json;

const P: &str = "C13";

pub fn inp_json(i: &Inp) -> serde_json::Value {
    match i {
        Inp::E(a) => json!({"P": el_json(a)}),
        Inp::EE(a, bb) => json!({"P": el_json(a), "Q": el_json(bb)}),
        Inp::EEB(a, bb, g) => json!({"P": el_json(a), "Q": el_json(bb), "flag": g}),
        Inp::F(x) => json!({"x": hexs(&fqb(x))}),
        Inp::FF(x, y) => json!({"x": hexs(&fqb(x)), "y": hexs(&fqb(y))}),
        Inp::EBits(a, bits) => json!({"P": el_json(a), "nbits": bits.len(), "bits": bits.iter().map(|x| if *x { '1' } else { '0' }).collect::<String>()}),
    }
}

/// inputs for one gadget (with an edge-class tag)
pub fn inputs_for(ctx: &Ctx, g: &Gadget, zoo: &[SE], rng: &mut rand_chacha::ChaCha20Rng, budget: usize) -> Vec<(Inp, String)> {
    let c = &ctx.c;
    let mut out: Vec<(Inp, String)> = Vec::new();
    match g.kind {
        "E" => {
            for e in zoo.iter().take(budget) {
                out.push((Inp::E(e.l), e.class.to_string()));
            }
        }
        "EE" | "EEB" => {
            let mut k = 0;
            'outer: for (ai, a) in zoo.iter().enumerate() {
                for pk in crate::c04::PARTNERS {
                    if (ai + k) % 3 != 0 && !(ai < 4) {
                        k += 1;
                        continue;
                    }
                    k += 1;
                    let bb = crate::c04::partner(ctx, a, pk, zoo, rng);
                    let class = format!("{}|{}", a.class, pk);
                    if g.kind == "EE" {
                        out.push((Inp::EE(a.l, bb.l), class));
                    } else {
                        out.push((Inp::EEB(a.l, bb.l, true), format!("{class}|true")));
                        out.push((Inp::EEB(a.l, bb.l, false), format!("{class}|false")));
                    }
                    if out.len() >= budget {
                        break 'outer;
                    }
                }
            }
        }
        "F" => {
            if g.name.contains("decompress") || g.name.contains("lazy encoding") || g.name.contains("new_witness<Fq>") {
                for (s, cl) in field_inputs_decode(ctx, rng, budget / 3) {
                    out.push((Inp::F(fq(&s)), cl.to_string()));
                }
            } else {
                let fz = field_zoo(&c.f);
                let stride = (fz.len() / (budget / 2).max(1)).max(1);
                for (v, cl) in fz.iter().step_by(stride) {
                    out.push((Inp::F(fq(v)), cl.to_string()));
                }
                for (v, cl) in fz.iter().take(12) {
                    out.push((Inp::F(fq(v)), cl.to_string()));
                }
                for _ in 0..budget / 2 {
                    out.push((Inp::F(fq(&rand_below(rng, &c.f.p))), "random".to_string()));
                }
            }
        }
        "FF" => {
            // pairs of encodings: valid/valid (equal, negated, different), valid/invalid, invalid/invalid
            let singles = field_inputs_decode(ctx, rng, budget / 6);
            let valid: Vec<&(B, &'static str)> = singles.iter().filter(|(s, _)| c.decode_spec_fe(s).is_ok()).collect();
            for (k, (s, cl)) in singles.iter().enumerate() {
                let partner: (B, &str) = match k % 5 {
                    0 => (s.clone(), "same"),
                    1 => (c.f.neg(s), "q-s"),
                    2 | 3 => { let v = valid[(7 * k + 3) % valid.len()]; (v.0.clone(), v.1) }
                    _ => { let v = &singles[(5 * k + 1) % singles.len()]; (v.0.clone(), v.1) }
                };
                out.push((Inp::FF(fq(s), fq(&partner.0)), format!("{cl}|{}", partner.1)));
                out.push((Inp::FF(fq(&partner.0), fq(s)), format!("{}|{cl}", partner.1)));
                if let Ok(p) = c.decode_spec_fe(s) {
                    // the same element through the encoding of its negation's negation etc.
                    let e2 = c.encode_spec_fe(&c.neg(&p)).unwrap();
                    out.push((Inp::FF(fq(s), fq(&e2)), format!("{cl}|encoding of -P")));
                }
            }
        }
        "EBits" => {
            let pats: Vec<(Vec<bool>, &str)> = {
                let bits_of = |v: &B, n: usize| -> Vec<bool> { (0..n as u64).map(|i| v.bit(i)).collect() };
                let mut p: Vec<(Vec<bool>, &str)> = vec![
                    (vec![], "0 bits"),
                    (vec![false], "1 bit"),
                    (vec![true], "1 bit"),
                    (vec![true; 64], "64 bits all-ones"),
                    (bits_of(&(&c.r - b(1)), 251), "r-1 (251 bits)"),
                    (bits_of(&c.r, 251), "r (251 bits)"),
                    (bits_of(&c.r, 256), "r (256 bits)"),
                    (vec![true; 256], "2^256-1"),
                    (vec![false; 256], "0 (256 bits)"),
                ];
                for n in [2usize, 64, 251, 253, 256] {
                    let v = rand_below(rng, &(b(1) << n));
                    p.push((bits_of(&v, n), "random"));
                }
                // short strings of several lengths (dense, so that set bits fall on every allocation mode of
                // the mixed-mode gadgets), all-ones, single top bit
                for n in [3usize, 5, 8, 13, 16, 33] {
                    let v = rand_below(rng, &(b(1) << n)) | b(1) | (b(1) << (n / 2));
                    p.push((bits_of(&v, n), "short random"));
                    p.push((vec![true; n], "short all-ones"));
                    p.push((bits_of(&(b(1) << (n - 1)), n), "short top bit"));
                }
                p
            };
            for (i, (bits, cl)) in pats.iter().enumerate() {
                for e in zoo.iter().skip(i % 5).step_by(11).take((budget / pats.len()).max(1)) {
                    out.push((Inp::EBits(e.l, bits.clone()), format!("{}|{}", e.class, cl)));
                }
            }
        }
        _ => unreachable!(),
    }
    out
}

fn judge_run(ctx: &Ctx, rec: &mut Rec, g: &Gadget, inp: &Inp, class: &str) {
    let name = g.name;
    rec.form(name);
    rec.class(&format!("{}:{}", g.kind, class.split('|').last().unwrap_or("")));
    let inp2 = inp.clone();
    let native = match guarded(|| (g.native)(&inp2)) {
        Ok(n) => n,
        Err(pn) => {
            rec.violation(format!("{P}:{name}:native-panic"), format!("native counterpart panicked: {pn}"), inp_json(inp));
            return;
        }
    };
    // the optimisation goal of the constraint system is a configuration of the circuit too: half of the cases
    // use the default (Constraints), a quarter each Weight and None
    let goal = [0u8, 0, 1, 2][(crate::mon::h64(&(name, class, format!("{:?}", inp_json(inp)))) % 4) as usize];
    rec.class(["goal:Constraints", "goal:Weight", "goal:None"][goal as usize]);
    rec.event(format!("synthesise {name} on {class} (goal {goal})"));
    let res = guarded(|| {
        crate::r1::GOAL.with(|gl| gl.set(goal));
        let run = execute(g, &inp2, false);
        crate::r1::GOAL.with(|gl| gl.set(0));
        (run.synth_ok, run.synth_err, run.satisfied, run.out, run.ncons)
    });
    crate::r1::GOAL.with(|gl| gl.set(0));
    let (synth_ok, synth_err, sat, out, ncons) = match res {
        Ok(r) => r,
        Err(pn) => {
            // a panic during synthesis is acceptable only when the native operation fails too
            if native.is_some() {
                rec.violation(format!("{P}:{name}:synthesis-panic"), format!("synthesis panicked although the native operation succeeds ({class}): {pn}"), inp_json(inp));
            } else {
                rec.count("synthesis aborted on natively-invalid input", 1);
            }
            return;
        }
    };
    rec.count("constraints_synthesised", ncons as u64);
    match native {
        None => {
            if synth_ok && sat == Some(true) {
                rec.violation(format!("{P}:{name}:satisfied-but-native-rejects"), format!("honest synthesis is satisfied although the native operation rejects the input ({class})"), inp_json(inp));
            } else {
                rec.count("correctly unsatisfied on natively-invalid input", 1);
            }
        }
        Some(w) => {
            if !synth_ok {
                rec.violation(format!("{P}:{name}:incomplete"), format!("synthesis failed ({:?}) although the native operation succeeds ({class})", synth_err), inp_json(inp));
                return;
            }
            if sat != Some(true) {
                rec.violation(format!("{P}:{name}:incomplete"), format!("honest synthesis is not satisfied although the native operation succeeds ({class})"), inp_json(inp));
                return;
            }
            match out {
                Some(Ok(o)) => {
                    if let Err(why) = out_matches(&ctx.c, &o, &w) {
                        rec.violation(format!("{P}:{name}:wrong-output"), format!("gadget output differs from the native output ({class}): {why}"), inp_json(inp));
                    }
                }
                Some(Err(e)) => rec.violation(format!("{P}:{name}:value-unreadable"), format!("output value unreadable on a satisfied system: {e}"), inp_json(inp)),
                None => {}
            }
        }
    }
}

pub fn run(ctx: &Ctx, rec: &mut Rec) {
    let gs = gadgets();
    for g in &gs {
        rec.declare_form(g.name);
    }
    for cl in ["E:identity", "E:identity'", "E:other-rep", "E:G", "F:s=0", "F:s=q-1", "F:s=1 (negative)", "F:non-square-discriminant", "F:zero", "F:random", "EE:same", "EE:neg", "EE:other-rep", "EEB:true", "EEB:false"] {
        rec.declare_class(cl);
    }
    let mut zrng = rng_for(ctx.seed, P, 999, 0);
    let zoo = elements_for_gadgets(ctx, &mut zrng, ctx.scale(12, 60));
    // work list: (gadget index, input)
    let mut work: Vec<(usize, Inp, String)> = Vec::new();
    for (gi, g) in gs.iter().enumerate() {
        let budget = match g.kind {
            "EBits" => ctx.scale(200, 900),
            "F" => ctx.scale(500, 3000),
            "FF" => ctx.scale(240, 1500),
            _ => ctx.scale(400, 2400),
        };
        for (inp, cl) in inputs_for(ctx, g, &zoo, &mut zrng, budget) {
            work.push((gi, inp, cl));
        }
    }
    rec.count("syntheses_planned", work.len() as u64);
    par(rec, |w, n, rec| {
        for (i, (gi, inp, class)) in work.iter().enumerate() {
            if i % n != w {
                continue;
            }
            let g = &gs[*gi];
            rec.eval(&(g.name, format!("{:?}", inp_json(inp))), false);
            judge_run(ctx, rec, g, inp, class);
            if i % 997 == 0 {
                rec.sample(json!({"gadget": g.name, "class": class, "input": inp_json(inp)}));
            }
        }
    });
    lazy_histories(ctx, rec, &zoo);
    gadget_programs(ctx, rec, &zoo);
    rec.check_coverage();
}

/// Forcing histories on a lazily evaluated variable. Ops (pure forcing, no constraints of
/// their own): E = compress_to_field(), V = value(), C = cs(), K = clone then
/// compress_to_field on the clone, L = clone then value() on the clone.
/// All sequences of length <= 4 from both start states, exhaustive.
fn lazy_histories(ctx: &Ctx, rec: &mut Rec, zoo: &[SE]) {
    const OPS: [char; 5] = ['E', 'V', 'C', 'K', 'L'];
    let mut seqs: Vec<Vec<char>> = vec![vec![]];
    let mut frontier: Vec<Vec<char>> = vec![vec![]];
    for _ in 0..4 {
        let mut next = Vec::new();
        for s in &frontier {
            for o in OPS {
                let mut t = s.clone();
                t.push(o);
                next.push(t);
            }
        }
        seqs.extend(next.iter().cloned());
        frontier = next;
    }
    rec.count("lazy_histories_per_start_state", seqs.len() as u64);
    rec.declare_form("lazy: start=Encoding");
    rec.declare_form("lazy: start=Element");
    let elems: Vec<&SE> = zoo.iter().filter(|e| ["identity", "G", "other-rep", "elligator", "rescaled"].contains(&e.class)).take(ctx.scale(5, 12)).collect();
    par(rec, |w, n, rec| {
        for (ei, e) in elems.iter().enumerate() {
            let native_enc = e.l.vartime_compress_to_field();
            for start in ["Encoding", "Element"] {
                // reference shapes: minimal histories
                let mut ref_shape: std::collections::BTreeMap<(bool, bool), Shape> = Default::default();
                for (si, seq) in seqs.iter().enumerate() {
                    if (si + ei) % n != w {
                        continue;
                    }
                    rec.form(&format!("lazy: start={start}"));
                    rec.eval(&("lazy", start, seq.clone(), e.key()), false);
                    let el = e.l;
                    let seq2 = seq.clone();
                    let res = guarded(move || -> Result<(Vec<String>, Shape, (bool, bool), bool), String> {
                        let cs = new_cs(false);
                        let var: ElementVar = if start == "Encoding" {
                            AllocVar::<Fq, Fq>::new_witness(cs.clone(), || Ok(native_enc)).map_err(|e| format!("{e:?}"))?
                        } else {
                            raw(&cs, &el).map_err(|e| format!("{e:?}"))?
                        };
                        let mut problems: Vec<String> = Vec::new();
                        // forced[0]: encoding present, forced[1]: element present (on the original)
                        let mut have = if start == "Encoding" { (true, false) } else { (false, true) };
                        let mut has_clone_work = false;
                        for (k, op) in seq2.iter().enumerate() {
                            let before = cs.num_constraints();
                            let mut may_grow = false;
                            match op {
                                'E' => {
                                    may_grow = !have.0;
                                    let f: FqVar = var.compress_to_field().map_err(|e| format!("{e:?}"))?;
                                    have.0 = true;
                                    if f.value().map_err(|e| format!("{e:?}"))? != native_enc {
                                        problems.push(format!("step {k}: compress_to_field value differs from native"));
                                    }
                                }
                                'V' => {
                                    may_grow = !have.1;
                                    let v = var.value().map_err(|e| format!("{e:?}"))?;
                                    have.1 = true;
                                    if v != el {
                                        problems.push(format!("step {k}: value() differs from native"));
                                    }
                                }
                                'C' => {
                                    may_grow = !have.1;
                                    let _ = var.cs();
                                    have.1 = true;
                                }
                                'K' => {
                                    may_grow = !have.0;
                                    has_clone_work |= !have.0;
                                    let cl = var.clone();
                                    let f = cl.compress_to_field().map_err(|e| format!("{e:?}"))?;
                                    if f.value().map_err(|e| format!("{e:?}"))? != native_enc {
                                        problems.push(format!("step {k}: clone.compress_to_field value differs"));
                                    }
                                }
                                'L' => {
                                    may_grow = !have.1;
                                    has_clone_work |= !have.1;
                                    let cl = var.clone();
                                    if cl.value().map_err(|e| format!("{e:?}"))? != el {
                                        problems.push(format!("step {k}: clone.value() differs"));
                                    }
                                }
                                _ => unreachable!(),
                            }
                            let after = cs.num_constraints();
                            if after < before {
                                problems.push(format!("step {k} ({op}): constraints decreased"));
                            }
                            if after > before && !may_grow {
                                problems.push(format!("step {k} ({op}): {} constraints added by a repeated forcing", after - before));
                            }
                            if after == before && may_grow {
                                problems.push(format!("step {k} ({op}): first forcing of the missing form added no constraints"));
                            }
                        }
                        if !cs.is_satisfied().map_err(|e| format!("{e:?}"))? {
                            problems.push("system not satisfied after the history".into());
                        }
                        Ok((problems, shape(&cs), have, has_clone_work))
                    });
                    match res {
                        Err(pn) => rec.violation(format!("{P}:lazy:panic"), format!("history {:?} from {start} panicked: {pn}", seq), json!({"element": el_json(&e.l)})),
                        Ok(Err(se)) => rec.violation(format!("{P}:lazy:synthesis-error"), format!("history {:?} from {start}: {se}", seq), json!({"element": el_json(&e.l)})),
                        Ok(Ok((problems, sh, have, clone_work))) => {
                            for pr in problems {
                                let kind = if pr.contains("repeated forcing") { "constraints-on-repetition" } else if pr.contains("differs") { "value-changed" } else { "other" };
                                rec.violation(format!("{P}:lazy:{kind}"), format!("history {:?} from {start}: {pr}", seq.iter().collect::<String>()), json!({"element": el_json(&e.l), "class": e.class}));
                            }
                            // histories without clone work that forced the same forms must end in identical matrices
                            if !clone_work {
                                match ref_shape.get(&have) {
                                    None => {
                                        ref_shape.insert(have, sh);
                                    }
                                    Some(r0) => {
                                        rec.count("lazy_shape_comparisons", 1);
                                        if r0 != &sh {
                                            rec.violation(format!("{P}:lazy:matrices-depend-on-history"), format!("history {:?} from {start} ends in different matrices than another history forcing the same forms", seq.iter().collect::<String>()), json!({"shape": format!("{sh:?}"), "reference": format!("{r0:?}")}));
                                        }
                                    }
                                }
                            }
                        }
                    }
                }
            }
        }
    });
}

/// Random straight-line *circuit programs*: a register file of (ElementVar, native Element)
/// pairs, operated on by in-place and by-value gadget operations interleaved with operations
/// that force the lazily evaluated encoding / element. After the program the system must be
/// satisfied and every register must still agree with its native shadow, both as element and
/// as encoding. This is where a stale memoised encoding or element would show.
fn gadget_programs(ctx: &Ctx, rec: &mut Rec, zoo: &[SE]) {
    use crate::zoo::rand_range;
    use ark_ec::Group;
    const OPS: [&str; 16] = [
        "prog: a + b", "prog: a - b", "prog: reg += b", "prog: reg -= b", "prog: reg.negate()", "prog: reg.double_in_place()",
        "prog: reg.compress_to_field()", "prog: reg.value()", "prog: decompress(compress(reg))", "prog: conditionally_select",
        "prog: reg + Element", "prog: reg += Element", "prog: clone", "prog: scalar_mul_le(small)", "prog: reg.double()", "prog: is_eq",
    ];
    for o in OPS {
        rec.declare_form(o);
    }
    for st in ["start: raw element", "start: new_witness<Element>", "start: new_input<Element>", "start: new_witness<Fq> encoding", "start: constant"] {
        rec.declare_class(st);
    }
    let nprog = ctx.scale(4000, 40_000);
    par(rec, |w, n, rec| {
        let mut rng = rng_for(ctx.seed, P, w, 77);
        for pi in 0..nprog {
            if pi % n != w {
                continue;
            }
            let len = 3 + rand_range(&mut rng, 12);
            // choose everything up front so that the guarded closure is deterministic
            let starts: Vec<(usize, El)> = (0..3).map(|_| (rand_range(&mut rng, 5), zoo[rand_range(&mut rng, zoo.len())].l)).collect();
            let steps: Vec<(usize, usize, usize, u64)> = (0..len).map(|_| (rand_range(&mut rng, OPS.len()), rand_range(&mut rng, 8), rand_range(&mut rng, 8), rand_below(&mut rng, &b(16)).to_u64_digits().first().copied().unwrap_or(0))).collect();
            let konst = zoo[rand_range(&mut rng, zoo.len())].l;
            rec.eval(&("gadget-program", pi, ctx.seed), false);
            rec.count("gadget_programs", 1);
            rec.count("gadget_program_steps", len as u64);
            for (k, _) in &starts {
                rec.class(["start: raw element", "start: new_witness<Element>", "start: new_input<Element>", "start: new_witness<Fq> encoding", "start: constant"][*k]);
            }
            for (o, _, _, _) in &steps {
                rec.form(OPS[*o]);
            }
            let (starts2, steps2) = (starts.clone(), steps.clone());
            let res = guarded(move || -> Result<Vec<String>, String> {
                let cs = new_cs(false);
                let se = |e: ark_relations::r1cs::SynthesisError| format!("{e:?}");
                let mut problems: Vec<String> = Vec::new();
                let mut regs: Vec<(ElementVar, El)> = Vec::new();
                for (kind, e) in &starts2 {
                    let e = *e;
                    let v: ElementVar = match kind {
                        0 => raw(&cs, &e).map_err(se)?,
                        1 => ElementVar::new_witness(cs.clone(), || Ok(e)).map_err(se)?,
                        2 => ElementVar::new_input(cs.clone(), || Ok(e)).map_err(se)?,
                        3 => {
                            let enc_f = e.vartime_compress_to_field();
                            AllocVar::<Fq, Fq>::new_witness(cs.clone(), || Ok(enc_f)).map_err(se)?
                        }
                        _ => ElementVar::new_constant(cs.clone(), e).map_err(se)?,
                    };
                    regs.push((v, e));
                }
                for (si, (op, i, j, small)) in steps2.iter().enumerate() {
                    let (i, j) = (i % regs.len(), j % regs.len());
                    let (bv, bn) = (regs[j].0.clone(), regs[j].1);
                    match OPS[*op] {
                        "prog: a + b" => {
                            let r = (regs[i].0.clone() + bv, regs[i].1 + bn);
                            regs.push(r);
                        }
                        "prog: a - b" => {
                            let r = (regs[i].0.clone() - bv, regs[i].1 - bn);
                            regs.push(r);
                        }
                        "prog: reg += b" => {
                            regs[i].0 += bv;
                            regs[i].1 = regs[i].1 + bn;
                        }
                        "prog: reg -= b" => {
                            regs[i].0 -= bv;
                            regs[i].1 = regs[i].1 - bn;
                        }
                        "prog: reg.negate()" => {
                            let r = (regs[i].0.negate().map_err(se)?, -regs[i].1);
                            regs[i] = r;
                        }
                        "prog: reg.double_in_place()" => {
                            regs[i].0.double_in_place().map_err(se)?;
                            regs[i].1 = regs[i].1 + regs[i].1;
                        }
                        "prog: reg.double()" => {
                            let r = (regs[i].0.double().map_err(se)?, regs[i].1 + regs[i].1);
                            regs.push(r);
                        }
                        "prog: reg.compress_to_field()" => {
                            let f = regs[i].0.compress_to_field().map_err(se)?;
                            if f.value().map_err(se)? != regs[i].1.vartime_compress_to_field() {
                                problems.push(format!("step {si}: compress_to_field of register {i} differs from the native encoding"));
                            }
                        }
                        "prog: reg.value()" => {
                            if regs[i].0.value().map_err(se)? != regs[i].1 {
                                problems.push(format!("step {si}: value() of register {i} differs from the native element"));
                            }
                        }
                        "prog: decompress(compress(reg))" => {
                            let f = regs[i].0.compress_to_field().map_err(se)?;
                            let r = (ElementVar::decompress_from_field(f).map_err(se)?, regs[i].1);
                            regs.push(r);
                        }
                        "prog: conditionally_select" => {
                            let cond = *small % 2 == 0;
                            let cv = crate::r1::guard_as(&cs, cond, [0u8, 1, 2, 5, 4, 1][(*small as usize / 2) % 6]).map_err(se)?;
                            let r = (ElementVar::conditionally_select(&cv, &regs[i].0, &bv).map_err(se)?, if cond { regs[i].1 } else { bn });
                            regs.push(r);
                        }
                        "prog: reg + Element" => {
                            let r = (regs[i].0.clone() + konst, regs[i].1 + konst);
                            regs.push(r);
                        }
                        "prog: reg += Element" => {
                            regs[i].0 += konst;
                            regs[i].1 = regs[i].1 + konst;
                        }
                        "prog: clone" => {
                            let r = (regs[i].0.clone(), regs[i].1);
                            regs.push(r);
                        }
                        "prog: scalar_mul_le(small)" => {
                            let bits: Vec<Boolean<Fq>> = (0..4).map(|k| wb(&cs, (small >> k) & 1 == 1)).collect::<Result<_, _>>().map_err(se)?;
                            let r = (regs[i].0.scalar_mul_le(bits.iter()).map_err(se)?, Group::mul_bigint(&regs[i].1, [*small & 15]));
                            regs.push(r);
                        }
                        "prog: is_eq" => {
                            let bvar = regs[i].0.is_eq(&bv).map_err(se)?;
                            if bvar.value().map_err(se)? != (regs[i].1 == bn) {
                                problems.push(format!("step {si}: is_eq of registers {i},{j} differs from native =="));
                            }
                        }
                        _ => unreachable!(),
                    }
                    if regs.len() > 8 {
                        regs.remove(0);
                    }
                }
                // final state: every register agrees with its shadow, as element and as encoding
                for (k, (v, nat)) in regs.iter().enumerate() {
                    let f = v.compress_to_field().map_err(se)?;
                    if f.value().map_err(se)? != nat.vartime_compress_to_field() {
                        problems.push(format!("final: encoding of register {k} differs from the native encoding"));
                    }
                }
                if !cs.is_satisfied().map_err(se)? {
                    problems.push("final: constraint system of an honest program is not satisfied".into());
                } else {
                    for (k, (v, nat)) in regs.iter().enumerate() {
                        if v.value().map_err(se)? != *nat {
                            problems.push(format!("final: value of register {k} differs from the native element"));
                        }
                    }
                }
                Ok(problems)
            });
            let detail = json!({"starts": starts.iter().map(|(k, e)| json!({"kind": k, "element": el_json(e)})).collect::<Vec<_>>(), "steps": steps.iter().map(|(o, i, j, s)| json!([OPS[*o], i, j, s])).collect::<Vec<_>>()});
            match res {
                Err(pn) => rec.violation(format!("{P}:gadget-program:panic"), format!("honest gadget program panicked: {pn}"), detail),
                Ok(Err(se)) => rec.violation(format!("{P}:gadget-program:synthesis-error"), format!("honest gadget program failed to synthesise: {se}"), detail),
                Ok(Ok(problems)) => {
                    for pr in problems {
                        let kind = if pr.contains("encoding") { "stale-or-wrong-encoding" } else if pr.contains("value") { "wrong-value" } else if pr.contains("satisfied") { "unsatisfied" } else { "other" };
                        rec.violation(format!("{P}:gadget-program:{kind}"), pr, detail.clone());
                    }
                }
            }
            if pi < 2 {
                rec.sample(json!({"gadget_program": steps.iter().map(|(o, _, _, _)| OPS[*o]).collect::<Vec<_>>()}));
            }
        }
    });
}
