//! Hostile value zoos: deterministic structured part (seed-independent) + seeded random part.
#![allow(dead_code)]
use crate::model::{b, from_le, to_le, Curve, Fld, Pt, B};
use num_traits::{One, Zero};
use rand_core::RngCore;

pub fn rand_below(rng: &mut impl RngCore, n: &B) -> B {
    let nbytes = ((n.bits() + 7) / 8) as usize + 8;
    let mut buf = vec![0u8; nbytes];
    rng.fill_bytes(&mut buf);
    from_le(&buf) % n
}
pub fn rand_bytes(rng: &mut impl RngCore, n: usize) -> Vec<u8> {
    let mut v = vec![0u8; n];
    rng.fill_bytes(&mut v);
    v
}
pub fn rand_range(rng: &mut impl RngCore, n: usize) -> usize {
    (rng.next_u64() % (n as u64)) as usize
}

/// (value, edge class)
pub type Tagged = (B, &'static str);

/// Structured field zoo for modulus p (all values reduced into [0,p)).
pub fn field_zoo(f: &Fld) -> Vec<Tagged> {
    let p = &f.p;
    let mut z: Vec<Tagged> = Vec::new();
    let mut push = |v: B, c: &'static str| z.push((v % p, c));
    push(b(0), "zero");
    push(b(1), "one");
    push(b(2), "two");
    push(p - b(1), "p-1");
    push(p - b(2), "p-2");
    push((p - b(1)) >> 1, "(p-1)/2");
    push((p + b(1)) >> 1, "(p+1)/2");
    for k in 0..f.bits {
        let pw = b(1) << k;
        push(pw.clone(), "2^k");
        push(&pw - b(1), "2^k-1");
        if &pw < p {
            push(p - &pw, "p-2^k");
        }
    }
    // single-limb patterns in every 32- and 64-bit limb position
    let pats: [u64; 5] = [0, 1, 0xffff_ffff, 0x1_0000_0000, 0xffff_ffff_ffff_ffff];
    let n32 = (f.bits + 31) / 32;
    for pos in 0..n32 {
        for pat in pats {
            let v = b(pat) << (32 * pos);
            push(v.clone(), "limb-pattern");
            // pattern with all other limbs ones
            let all = (b(1) << (32 * n32)) - b(1);
            push(&all ^ &v, "limb-pattern-inv");
        }
    }
    // Montgomery artefacts for both limb sizes (R = 2^(64*n64) = 2^(32*n32) here)
    let n64 = (f.bits + 63) / 64;
    let r = (b(1) << (64 * n64)) % p;
    push(r.clone(), "R");
    push((&r * &r) % p, "R^2");
    push(f.inv(&r).unwrap(), "R^-1");
    push(f.neg(&r), "-R");
    // internal (Montgomery) residues at the two ends of the range: v*R mod p = k and p-k for small k
    {
        let rinv = f.inv(&r).unwrap();
        for k in 1u64..=8 {
            push(f.mul(&b(k), &rinv), "montgomery-extreme");
            push(f.neg(&f.mul(&b(k), &rinv)), "montgomery-extreme");
        }
        push(f.mul(&((p - b(1)) >> 1), &rinv), "montgomery-extreme");
        push(f.mul(&((p + b(1)) >> 1), &rinv), "montgomery-extreme");
    }
    // values whose *Montgomery representation* v*R mod p has a structured limb (all-ones / zero
    // 32- and 64-bit limbs, all other limbs random-looking): carries and borrows inside the
    // word-by-word backends depend on the internal form, not on the canonical value
    {
        let rinv = f.inv(&r).unwrap();
        let n32 = (f.bits + 31) / 32;
        let filler = (&r * b(0x9E37_79B9_7F4A_7C15) + b(0x1234_5678_9ABC_DEF1)) % p; // fixed pseudo-random fill
        for pos in 0..n32 {
            for width in [32usize, 64] {
                if width == 64 && pos % 2 == 1 {
                    continue;
                }
                let mask = ((b(1) << width) - b(1)) << (32 * pos);
                let ones = (&filler | &mask) % p;
                let zeros = (&filler & ((b(1) << (32 * n32)) - b(1) - &mask)) % p;
                for m in [ones, zeros] {
                    push(f.mul(&m, &rinv), "montgomery-limb-pattern");
                }
            }
        }
    }
    // roots of unity of every order 2^k
    let g = {
        // a generator of the 2-Sylow subgroup: nonresidue^t
        let mut c = b(2);
        while f.legendre(&c) != -1 {
            c += b(1);
        }
        f.pow(&c, &f.t)
    };
    let mut w = g;
    for _ in 0..=f.s {
        push(w.clone(), "root-of-unity-2^k");
        w = f.sq(&w);
    }
    // ... their negatives (the other square roots), and elements of every small multiplicative order n | p-1
    // (roots of x^2+x+1, x^2-x+1, x^4+x^3+x^2+x+1, ...: a "this auxiliary polynomial never vanishes" argument
    // fails exactly there), all of them for n <= 16, a generator and its inverse beyond
    {
        let mut w2 = f.pow(&{ let mut c = b(2); while f.legendre(&c) != -1 { c += b(1); } c }, &f.t);
        for _ in 0..f.s {
            push(f.neg(&w2), "root-of-unity-2^k");
            w2 = f.sq(&w2);
        }
        let pm1 = p - b(1);
        let mut orders: Vec<u64> = Vec::new();
        for n in 3u64..=1024 {
            if (&pm1 % b(n)) == b(0) {
                orders.push(n);
            }
        }
        for n in orders {
            let e = &pm1 / b(n);
            // an element of exact order n
            let mut cnd = b(2);
            let gen = loop {
                let g = f.pow(&cnd, &e);
                let exact = (2..=n).filter(|d| n % d == 0 && (2..*d).all(|q| d % q != 0)).all(|q| f.pow(&g, &b(n / q)) != b(1));
                if exact {
                    break g;
                }
                cnd += b(1);
            };
            if n <= 16 {
                let mut x = gen.clone();
                for j in 1..n {
                    if gcd_u64(j, n) == 1 {
                        push(x.clone(), "small-multiplicative-order");
                    }
                    x = f.mul(&x, &gen);
                }
            } else if n.is_power_of_two() {
                continue;
            } else {
                push(gen.clone(), "small-multiplicative-order");
                push(f.inv(&gen).unwrap(), "small-multiplicative-order");
            }
        }
    }
    // quotient-estimate boundaries: floor(j*p/k) and its neighbours for the small multipliers k that occur in
    // curve formulas (2, 3, 4, 8, d, d-a, 2d, a-2d, 4d) and j = 1, k/2, k-1, as canonical values and as internal forms
    {
        let n64 = (f.bits + 63) / 64;
        let rinv = f.inv(&((b(1) << (64 * n64)) % p)).unwrap();
        for k in [2u64, 3, 4, 5, 8, 16, 3021, 3022, 6042, 6043, 12084] {
            for j in [1u64, 2, k / 2, k - 1] {
                if j == 0 || j >= k {
                    continue;
                }
                let m = (p * b(j)) / b(k);
                for v in [m.clone(), &m + b(1), &m - b(1), &m - b(2), &m - b(3)] {
                    push(v.clone(), "near j*p/k");
                    push(f.mul(&v, &rinv), "near j*p/k");
                }
            }
        }
    }
    for v in [3u64, 4, 5, 7, 8, 10, 16, 255, 256, 3021, 6042, 65535, 65536] {
        push(b(v), "small-int");
        push(p - b(v), "neg-small-int");
    }
    for v in modulus_limb_sharing(p, 64, false) {
        push(v, "modulus-limb-sharing");
    }
    for v in modulus_limb_sharing(p, 32, false) {
        push(v, "modulus-limb-sharing");
    }
    for v in recoding_runs(f.bits) {
        push(v, "recoding-run");
    }
    for v in decimal_structured(p) {
        push(v, "decimal-structure");
    }
    for v in two_adic_relations(p) {
        push(v, "2-adic relation with p");
    }
    for v in divstep_worst_inputs(p, 300, 24) {
        // also the Montgomery-domain partner: the backends hand the canonical value to the divstep loop,
        // a variant working on the internal form would see v*R
        push(v.clone(), "divstep-worst-case");
    }
    {
        // values whose limbs are symmetric under a fold, as canonical integers and as Montgomery forms
        let n64 = (f.bits + 63) / 64;
        let rr = (b(1) << (64 * n64)) % p;
        let rinv = f.inv(&rr).unwrap();
        for v in limb_fold_symmetric(p) {
            push(v.clone(), "limb-fold-symmetry");
            push(f.mul(&(&v % p), &rinv), "limb-fold-symmetry");
        }
    }
    z
}

/// Non-zero values below p whose 64-bit limbs are symmetric under a fold: all limbs equal, limbs equal in
/// pairs ([a,a,b,b], [a,b,a,b], [a,b,b,a]), XOR of all limbs zero, sum of all limbs zero mod 2^64, each limb
/// of the form h*(2^32+1) (its two 32-bit halves equal), and XOR of the halves over all limbs zero.
/// A zero / equality test that folds limbs with the wrong operator confuses them with zero.
pub fn limb_fold_symmetric(p: &B) -> Vec<B> {
    let n = ((p.bits() as usize) + 63) / 64;
    let top = (p >> (64 * (n - 1))).to_u64_digits().first().copied().unwrap_or(1);
    let small = |s: u64| -> u64 { (s.wrapping_mul(0x9E37_79B9_7F4A_7C15) >> 4) % top.max(2) };
    let mut out: Vec<B> = Vec::new();
    let from = |l: &[u64]| -> B { l.iter().enumerate().fold(b(0), |acc, (i, x)| acc + (b(*x) << (64 * i))) };
    for seed in 1u64..=4 {
        let (a, bb, c2) = (small(seed).max(1), small(seed + 17).max(1), small(seed + 101).max(1));
        let mut pats: Vec<Vec<u64>> = Vec::new();
        pats.push(vec![a; n]);
        pats.push((0..n).map(|i| if i < n / 2 { a } else { bb }).collect());
        pats.push((0..n).map(|i| if i % 2 == 0 { a } else { bb }).collect());
        pats.push((0..n).map(|i| if i == 0 || i == n - 1 { a } else { bb }).collect());
        // XOR of all limbs zero, sum of all limbs zero (the computed limb sits in a low position)
        let mut x: Vec<u64> = (0..n).map(|i| small(seed * 7 + i as u64).max(1)).collect();
        x[0] = x[1..].iter().fold(0u64, |acc, v| acc ^ v);
        pats.push(x.clone());
        x[0] = x[1..].iter().fold(0u64, |acc, v| acc.wrapping_add(*v)).wrapping_neg();
        pats.push(x);
        // halves equal in every limb; halves XOR to zero across limbs
        let h = |v: u64| -> u64 { (v & 0x7fff_ffff) * 0x1_0000_0001 };
        pats.push((0..n).map(|i| h(small(seed * 13 + i as u64)) % top.max(2).max(0x1_0000_0001)).collect());
        pats.push((0..n).map(|i| if i == n - 1 { (c2 & 0xffff) * 0x1_0000_0001 } else { h(a.wrapping_add(i as u64)) }).collect());
        // only two non-zero limbs, equal
        for i in 0..n - 1 {
            let mut l = vec![0u64; n];
            l[i] = a;
            l[(i + 1) % (n - 1)] = a;
            pats.push(l);
        }
        for l in pats {
            let v = from(&l);
            if v != b(0) {
                out.push(v % p);
            }
        }
    }
    out
}

/// Values that copy whole limbs of the modulus: multi-word comparisons, subtract-with-borrow chains and
/// conditional reductions behave specially when a word of the operand *equals* the corresponding word of
/// p (a borrow has to ripple through it, a limb-wise compare has to look further). For every subset of
/// 64-bit limbs (contiguous runs for 32-bit limbs) the chosen limbs are p's; the highest free limb is
/// below p's (so the value is < p) unless `above` (then it is above p's: a non-canonical value for
/// parsers and reducers); lower free limbs are p_i+1, p_i+2, p_i-1, all-ones, 0 or a fixed filler.
pub fn modulus_limb_sharing(p: &B, w: usize, above: bool) -> Vec<B> {
    let n = ((p.bits() as usize) + w - 1) / w;
    let mask_w = (b(1) << w) - b(1);
    let limb = |i: usize| (p >> (w * i)) & &mask_w;
    let mut masks: Vec<Vec<bool>> = Vec::new();
    if n <= 6 {
        for m in 1u32..((1u32 << n) - 1) {
            masks.push((0..n).map(|i| m >> i & 1 == 1).collect());
        }
    } else {
        for start in 0..n {
            for len in 1..n {
                if start + len <= n {
                    masks.push((0..n).map(|i| i >= start && i < start + len).collect());
                }
            }
        }
    }
    let filler = b(0x9E37_79B9_7F4A_7C15) & &mask_w;
    let mut out = Vec::new();
    for m in &masks {
        let hi_free = (0..n).rev().find(|i| !m[*i]).unwrap();
        for variant in 0..6u64 {
            let mut v = b(0);
            let mut ok = true;
            for i in 0..n {
                let pi = limb(i);
                let l = if m[i] {
                    pi
                } else if i == hi_free {
                    if above {
                        if &pi + b(1 + variant % 2) > mask_w { ok = false; b(0) } else { &pi + b(1 + variant % 2) }
                    } else if pi < b(1 + variant % 2) {
                        ok = false;
                        b(0)
                    } else {
                        &pi - b(1 + variant % 2)
                    }
                } else {
                    match variant {
                        0 => (&pi + b(1)) & &mask_w,
                        1 => (&pi + b(2)) & &mask_w,
                        2 => if pi == b(0) { mask_w.clone() } else { &pi - b(1) },
                        3 => mask_w.clone(),
                        4 => b(0),
                        _ => filler.clone(),
                    }
                };
                v += l << (w * i);
            }
            if ok {
                out.push(v);
            }
        }
    }
    out
}

/// Scalars / exponents made of long runs of one window digit: signed-digit and windowed recodings
/// (width w = 1..8) propagate a carry through a run of digits 2^(w-1)-1 / 2^(w-1) / 2^w-1; the run is
/// placed in every 64-bit limb with the limb below it at the carry threshold.
pub fn recoding_runs(bits: usize) -> Vec<B> {
    let n64 = (bits + 63) / 64;
    let mut pats: Vec<u64> = Vec::new();
    for w in 1..=8u32 {
        for d in [(1u64 << (w - 1)).wrapping_sub(1), 1u64 << (w - 1), (1u64 << w) - 1, (1u64 << (w - 1)) + 1] {
            if d == 0 {
                continue;
            }
            let mut l = 0u64;
            let mut sh = 0;
            while sh < 64 {
                l |= d << sh;
                sh += w;
            }
            if !pats.contains(&l) {
                pats.push(l);
            }
        }
    }
    let mut out = Vec::new();
    for &pat in &pats {
        // the pattern in every limb
        let mut all = b(0);
        for i in 0..n64 {
            all += b(pat) << (64 * i);
        }
        out.push(all);
        for i in 0..n64 {
            out.push(b(pat) << (64 * i));
            if i > 0 {
                for below in [pat, pat.wrapping_add(1), u64::MAX, 1u64 << 63, pat.wrapping_sub(1)] {
                    out.push((b(pat) << (64 * i)) + (b(below) << (64 * (i - 1))));
                }
            }
        }
    }
    out
}

/// Values with structure in their *decimal* expansion (decimal printers and parsers work on groups of
/// digits): powers of ten, d*10^k, 10^k +- 1, and numbers whose aligned digit groups (group sizes 3..20)
/// are 0, 1 or all-nines in various positions.
pub fn decimal_structured(p: &B) -> Vec<B> {
    let mut out = Vec::new();
    let ten = b(10);
    let mut pw = b(1);
    while &pw < p {
        out.push(pw.clone());
        out.push(&pw - b(1));
        out.push(&pw + b(1));
        out.push(&pw * b(2) + b(7));
        pw = &pw * &ten;
    }
    for g in [3u32, 4, 8, 9, 16, 18, 19, 20] {
        let base = num_traits::pow(b(10), g as usize);
        let nines = &base - b(1);
        let groups_max = 1 + (p.bits() as usize * 30103 / 100000) / g as usize;
        for pattern in 0..18u32 {
            // little-endian list of group values chosen from {0, 1, nines, 5}
            let choose = |k: usize| -> B {
                match (pattern / 3u32.pow((k % 3) as u32) + k as u32) % 4 {
                    0 => b(0),
                    1 => b(1),
                    2 => nines.clone(),
                    _ => b(5),
                }
            };
            let mut v = b(0);
            let mut m = b(1);
            for k in 0..groups_max {
                let gval = if k == groups_max - 1 { b(1 + (pattern % 2) as u64) } else { choose(k + pattern as usize) };
                v += gval * &m;
                m = &m * &base;
            }
            if &v < p {
                out.push(v);
            }
        }
    }
    out
}

/// a smaller core zoo (for all-pairs work in quick tiers)
pub fn field_core(f: &Fld) -> Vec<Tagged> {
    let p = &f.p;
    let n64 = (f.bits + 63) / 64;
    let r = (b(1) << (64 * n64)) % p;
    let mut z: Vec<Tagged> = vec![
        (b(0), "zero"),
        (b(1), "one"),
        (b(2), "two"),
        (p - b(1), "p-1"),
        (p - b(2), "p-2"),
        ((p - b(1)) >> 1, "(p-1)/2"),
        ((p + b(1)) >> 1, "(p+1)/2"),
        (r.clone(), "R"),
        (f.sq(&r), "R^2"),
        (f.inv(&r).unwrap(), "R^-1"),
        (b(0xffff_ffff), "limb-pattern"),
        (b(0x1_0000_0000), "limb-pattern"),
        (b(0xffff_ffff_ffff_ffff), "limb-pattern"),
        (b(1) << 64, "2^k"),
        (b(1) << 128, "2^k"),
        ((b(1) << 192) - b(1), "2^k-1"),
        ((b(1) << (f.bits - 1)), "2^k"),
        ((b(1) << (f.bits - 1)) - b(1), "2^k-1"),
        (p - (b(1) << 64), "p-2^k"),
        (p - (b(1) << 32), "p-2^k"),
    ];
    for (v, _) in z.iter_mut() {
        *v = &*v % p;
    }
    z
}

pub fn field_random(f: &Fld, rng: &mut impl RngCore, n: usize) -> Vec<Tagged> {
    (0..n).map(|_| (rand_below(rng, &f.p), "random")).collect()
}

/// Scalars as *integers* (not reduced): includes values >= r and long ones.
pub fn scalar_int_zoo(r: &B) -> Vec<Tagged> {
    let mut z: Vec<Tagged> = Vec::new();
    z.push((b(0), "zero"));
    z.push((b(1), "one"));
    z.push((b(2), "two"));
    z.push((b(3), "small-int"));
    z.push((r - b(1), "r-1"));
    z.push((r - b(2), "r-2"));
    z.push(((r - b(1)) >> 1, "(r-1)/2"));
    z.push(((r + b(1)) >> 1, "(r+1)/2"));
    for k in [1usize, 31, 32, 33, 63, 64, 65, 127, 128, 191, 192, 249, 250] {
        z.push((b(1) << k, "2^k"));
        z.push(((b(1) << k) - b(1), "2^k-1"));
    }
    z.push((b(0xffff_ffff_ffff_ffff), "all-ones-limb"));
    z.push((b(0xffff_ffff_ffff_ffff) << 64, "all-ones-limb"));
    z.push((b(0xffff_ffff) << 32, "all-ones-limb"));
    z.push((r.clone(), ">=r"));
    z.push((r + b(1), ">=r"));
    z.push((r * b(2), ">=r"));
    z.push((r * b(2) + b(5), ">=r"));
    z.push(((b(1) << 256) - b(1), "long"));
    z.push((b(1) << 320, "long"));
    z.push(((b(1) << 512) - b(1), "long"));
    z.push((r * r, "long"));
    // beyond 8 limbs (512 bits): 9..=12 limbs, dense and sparse
    z.push((b(1) << 512, "very-long"));
    z.push(((b(1) << 512) + b(3), "very-long"));
    z.push(((b(1) << 576) - b(1), "very-long"));
    z.push((b(1) << 640, "very-long"));
    z.push(((b(1) << 768) - b(1), "very-long"));
    z.push((r * r * r, "very-long"));
    z.push(((r * r) << 256, "very-long"));
    for v in recoding_runs(256) {
        z.push((v, "recoding-run"));
    }
    // ladder collisions: integers k >= r with bit j set whose low part L = k mod 2^j satisfies
    // L = +-2^j (mod r): a left-to-right or right-to-left double-and-add then adds a point to itself
    // (needs the doubling case of the addition law) or to its negative (identity intermediate) at step j
    let mut j = r.bits() as usize;
    while j <= r.bits() as usize + 8 {
        let pw = b(1) << j;
        for sign in [false, true] {
            let base = if sign { (r - (&pw % r)) % r } else { &pw % r };
            let mut l = base.clone();
            let mut m = 0;
            while l < pw && m < 4 {
                z.push((&pw + &l, "ladder-collision"));
                z.push((&pw + &l + (b(1) << 300), "ladder-collision"));
                z.push((&pw + &l + (b(1) << (j + 1)), "ladder-collision"));
                l += r;
                m += 1;
            }
        }
        j += 1;
    }
    // ... and for left-to-right ladders / prefix-based methods: integers one of whose binary prefixes is
    // c*r + delta (delta in -2..=2): the running multiple then is 0, +-P, +-2P (possibly shifted by the
    // 2-torsion point when the base has curve order 2r) right before an addition of P or a doubling
    for c in 1u64..=3 {
        for delta in [-2i64, -1, 0, 1, 2] {
            let base = if delta < 0 { r * b(c) - b((-delta) as u64) } else { r * b(c) + b(delta as u64) };
            for j in [0usize, 1, 2, 5, 64, 130] {
                let hi = &base << j;
                z.push((hi.clone(), "ladder-collision"));
                if j > 0 {
                    z.push((&hi + ((b(1) << j) - b(1)), "ladder-collision"));
                    z.push((&hi + (b(0x5DEECE66D) & ((b(1) << j) - b(1))), "ladder-collision"));
                }
            }
        }
    }
    // scalars whose *internal* (Montgomery) form k*2^256 mod r is short or has empty / full limbs while k
    // itself is a full-size integer: code that inspects the length, the top limb or the bits of a scalar
    // must look at the canonical integer, not at the stored words
    if r.bits() <= 256 && r.bits() > 192 {
        let fr = Fld::new(r.clone());
        let big_r = (b(1) << 256) % r;
        let rinv = fr.inv(&big_r).unwrap();
        for m in [b(1), b(2), b(0xffff_ffff), b(1) << 32, (b(1) << 64) - b(1), b(1) << 64, (b(1) << 96) + b(5), (b(1) << 128) - b(1), b(1) << 128, (b(1) << 160) + b(9), (b(1) << 192) - b(1), b(1) << 192, (b(1) << 224) + b(3), r - b(1), (r - b(1)) >> 1] {
            z.push((fr.mul(&m, &rinv), "internal-form-structured"));
        }
        // internal form with one empty 64-bit limb in the middle / at the bottom, others full
        let full = (b(1) << 250) - b(1);
        for pos in 0..4usize {
            let mask = ((b(1) << 64) - b(1)) << (64 * pos);
            let m = &full - (&full & &mask);
            z.push((fr.mul(&(m % r), &rinv), "internal-form-structured"));
        }
        z.push((big_r.clone(), "internal-form-structured"));
        z.push((fr.mul(&big_r, &big_r), "internal-form-structured"));
        z.push((rinv.clone(), "internal-form-structured"));
    }
    z
}

/// Values at every distance scale from a threshold `t`: t +- 2^k, t +- (2^k +- 2), t +- random
/// k-bit offsets, and offsets whose low 64-bit limbs wrap (2^64*j - small). Multi-limb
/// comparisons against `t` are decided by different limbs for different distances, so this sweep
/// drives every branch of a limb-wise `>=`.
pub fn threshold_sweep(t: &B, bits: usize, rng: &mut impl RngCore, per_scale: usize) -> Vec<B> {
    let mut out = Vec::new();
    for k in 0..bits {
        let pw = b(1) << k;
        let mut deltas = vec![pw.clone(), &pw + b(2), &pw + b(1)];
        if k > 1 {
            deltas.push(&pw - b(2));
            deltas.push(&pw - b(1));
        }
        for _ in 0..per_scale {
            deltas.push(rand_below(rng, &pw) + &pw);
        }
        if k % 64 == 0 && k > 0 {
            for j in [2u64, 4, 6, 8, 1, 3] {
                deltas.push(&pw - b(j));
                deltas.push((&pw * b(j)) - b(2));
            }
        }
        for d in deltas {
            out.push(t + &d);
            if &d <= t {
                out.push(t - &d);
            }
        }
    }
    out
}

/// Byte-string zoo around a modulus of `nbytes` canonical bytes.
pub fn bytes_zoo(f: &Fld, rng: &mut impl RngCore, nrand: usize) -> Vec<(Vec<u8>, &'static str)> {
    let n = f.nbytes;
    let mut z: Vec<(Vec<u8>, &'static str)> = Vec::new();
    let p = &f.p;
    let top = b(1) << (8 * n);
    let fits = |v: &B| v < &top;
    for (v, _) in field_core(f) {
        z.push((to_le(&v, n), "canonical"));
        let mut k = &v + p;
        while fits(&k) {
            z.push((to_le(&k, n), "v+kp"));
            k += p;
        }
    }
    for d in [0u64, 1, 2] {
        z.push((to_le(&(p - b(1) + b(d)), n), "p-1,p,p+1"));
    }
    for v in threshold_sweep(p, f.bits - 1, rng, 1) {
        if fits(&v) {
            z.push((to_le(&v, n), "p+-delta"));
        }
    }
    for w in [64usize, 32] {
        for (above, class) in [(false, "modulus-limb-sharing"), (true, "modulus-limb-sharing-above")] {
            for (i, v) in modulus_limb_sharing(p, w, above).into_iter().enumerate() {
                if !fits(&v) {
                    continue;
                }
                z.push((to_le(&v, n), class));
                if i % 3 == 0 {
                    // embedded in longer strings: as the low chunk, as a middle chunk, as the high chunk
                    let mut lo = to_le(&v, n);
                    lo.extend(to_le(&(p - b(1)), n));
                    z.push((lo, class));
                    let mut hi = vec![0xa5u8; n / 2];
                    hi.extend(to_le(&v, n));
                    z.push((hi, class));
                }
            }
        }
    }
    // non-canonical aliases v + p that a folded (XOR-accumulated) word comparison confuses with v
    for w in [64usize, 32] {
        for a in fold_collision_aliases(p, n, w, rng, 12, 400) {
            z.push((to_le(&a, n), "fold-collision alias"));
        }
    }
    z.push((to_le(&(b(1) << f.bits), n), "2^bits"));
    if f.bits < 8 * n {
        z.push((to_le(&((b(1) << f.bits) - b(1)), n), "2^bits-1"));
    }
    z.push((vec![0xff; n], "all-ones"));
    z.push((vec![0; n], "all-zero"));
    for hi in [0x20u8, 0x40, 0x80, 0xe0] {
        let mut v = vec![0u8; n];
        v[n - 1] = hi;
        z.push((v, "high-bit"));
        let mut v = to_le(&b(8), n);
        v[n - 1] |= hi;
        z.push((v, "high-bit"));
    }
    // long inputs for the reducers: beyond 256 bytes (2048 bits) and beyond any fixed internal buffer
    for len in [255usize, 256, 257, 264, 272, 300, 384, 511, 512, 513, 1000, 1024, 1025, 4097] {
        z.push((vec![0xabu8; len], "long"));
        let mut v = rand_bytes(rng, len);
        v[len - 1] |= 0x80;
        z.push((v, "long"));
        let mut one_hot = vec![0u8; len];
        one_hot[len - 1] = 1;
        z.push((one_hot, "long"));
    }
    // sparse long strings: aligned chunks that are zero or congruent to zero (k*p) between non-zero
    // neighbours; chunk sizes = element size, half, double, 8 and 16 bytes
    for chunk in [n, n / 2, 2 * n, 8, 16] {
        for nchunks in [3usize, 4, 6] {
            for zero_at in 1..nchunks - 1 {
                for kind in 0..3u8 {
                    let mut v: Vec<u8> = Vec::new();
                    for ci in 0..nchunks {
                        if ci == zero_at {
                            match kind {
                                0 => v.extend(vec![0u8; chunk]),
                                1 if chunk >= n => { let mut cbytes = to_le(p, n); cbytes.resize(chunk, 0); v.extend(cbytes) }
                                2 if chunk >= n && fits(&(p * b(3))) => { let mut cbytes = to_le(&(p * b(3)), n); cbytes.resize(chunk, 0); v.extend(cbytes) }
                                _ => v.extend(vec![0u8; chunk]),
                            }
                        } else {
                            let mut cbytes = vec![0u8; chunk];
                            cbytes[0] = 3 + ci as u8;
                            if ci % 2 == 1 {
                                cbytes[chunk - 1] = 5;
                            }
                            v.extend(cbytes);
                        }
                    }
                    z.push((v, "sparse-long"));
                }
            }
        }
    }
    for len in 0..=200usize {
        z.push((vec![0xabu8; len], "length"));
        if len <= 80 {
            z.push((rand_bytes(rng, len), "length"));
        }
    }
    for _ in 0..nrand {
        z.push((rand_bytes(rng, n), "random"));
        let mut v = rand_bytes(rng, n);
        v[n - 1] &= ((1u16 << (f.bits - 8 * (n - 1))) - 1) as u8;
        z.push((v, "random-masked"));
    }
    z
}

/// A shadowed element description: model point + how to present it to the library.
#[derive(Clone, Debug)]
pub struct MEl {
    pub pt: Pt,
    pub class: &'static str,
}

/// Smallest valid encodings s = 0, 8, ... (model-side search)
pub fn smallest_valid_s(c: &Curve, n: usize) -> Vec<B> {
    let mut out = Vec::new();
    let mut s = b(0);
    while out.len() < n {
        if c.decode_spec_fe(&s).is_ok() {
            out.push(s.clone());
        }
        s += b(2);
    }
    out
}

/// Model-side element zoo. Every member is a point of 2E (valid representative); the
/// `class` tags how it was made. Includes both coset members of many elements.
pub fn element_zoo(c: &Curve, rng: &mut impl RngCore, nrand: usize) -> Vec<MEl> {
    let mut z = Vec::new();
    let g = c.decode_spec_fe(&b(8)).unwrap();
    z.push(MEl { pt: c.identity(), class: "identity" });
    z.push(MEl { pt: c.t2(), class: "identity'" });
    z.push(MEl { pt: g.clone(), class: "G" });
    z.push(MEl { pt: c.torque(&g), class: "other-rep" });
    z.push(MEl { pt: c.neg(&g), class: "-G" });
    for s in smallest_valid_s(c, 12).into_iter().skip(2) {
        let p = c.decode_spec_fe(&s).unwrap();
        z.push(MEl { pt: p, class: "small-s" });
    }
    for k in [2u64, 3, 4, 7, 100, 65537] {
        z.push(MEl { pt: c.mul(&b(k), &g), class: "kG" });
    }
    z.extend(structured_elements(c));
    for i in 0..nrand {
        // Elligator images (model side) and decodes of random valid strings
        let r0 = rand_below(rng, &c.f.p);
        if let Some((p, _)) = c.elligator_spec(&r0) {
            if i % 2 == 0 {
                z.push(MEl { pt: p, class: "elligator" });
            } else {
                z.push(MEl { pt: c.torque(&p), class: "other-rep" });
            }
        }
    }
    let mut found = 0;
    while found < nrand / 2 {
        let mut s = rand_below(rng, &c.f.p);
        if s.bit(0) {
            s = c.f.neg(&s);
        }
        if let Ok(p) = c.decode_spec_fe(&s) {
            z.push(MEl { pt: p, class: "random-decode" });
            found += 1;
        }
    }
    z
}


/// the deterministic, more expensive part of the element zoo (computed once per process)
/// Elements whose *encoding* is sparse as a byte string: a single non-zero byte at each position, the top byte
/// together with one other byte / with a low half only, whole empty 64- and 128-bit halves. Assembling or
/// splitting an encoding by halves, limbs or bytes meets its "this part is zero" shortcuts here.
pub fn sparse_encoding_elements(c: &Curve) -> Vec<MEl> {
    use std::sync::OnceLock;
    static CACHE: OnceLock<Vec<MEl>> = OnceLock::new();
    CACHE.get_or_init(|| {
        let f = &c.f;
        let mut cands: Vec<B> = Vec::new();
        for pos in 0..32usize {
            for v in [2u64, 0x10, 0x80, 0xfe, 0x01] {
                cands.push(b(v) << (8 * pos));
            }
        }
        let top_max = (&f.p >> 248usize).to_u64_digits().first().copied().unwrap_or(0);
        for t in 1..=top_max {
            let top = b(t) << 248usize;
            for low in [b(0), b(2), b(0xfffe), b(1) << 64, (b(1) << 64) - b(2), (b(1) << 127) + b(2), (b(1) << 128) - b(2), b(0x9E37_79B9_7F4A_7C14) << 40, (b(1) << 128) + b(2), b(1) << 192] {
                cands.push(&top + low);
            }
            for pos in 0..31usize {
                cands.push(&top + (b(0x42) << (8 * pos)));
            }
        }
        for k in 1u64..=12 {
            cands.push((b(k) << 128usize) + b(2 * k));
            cands.push(b(k) << 192usize);
            cands.push((b(k) << 192usize) + (b(k) << 64usize));
        }
        let mut z = Vec::new();
        for s in cands {
            if s < f.p && !s.bit(0) {
                if let Ok(p) = c.decode_spec_fe(&s) {
                    z.push(MEl { pt: p, class: "sparse-encoding" });
                }
            }
        }
        z
    }).clone()
}

fn structured_elements(c: &Curve) -> Vec<MEl> {
    use std::sync::OnceLock;
    static CACHE: OnceLock<Vec<MEl>> = OnceLock::new();
    CACHE.get_or_init(|| {
        let g = c.decode_spec_fe(&b(8)).unwrap();
        let mut z: Vec<MEl> = Vec::new();
    // every small multiple of the generator (tables of precomputed multiples end somewhere)
        {
            let mut acc = c.double(&g);
            for k in 2u64..=66 {
                if ![2u64, 3, 4, 7].contains(&k) && (k <= 34 || k % 8 == 0 || k > 62) {
                    z.push(MEl { pt: acc.clone(), class: "small kG" });
                }
                acc = c.add(&acc, &g);
            }
        }
        // elements whose *encoding* is a structured or published value: k*2^j with whole zero limbs below,
        // the field constants of the crate (zeta, 1/zeta, d, ...), short integers
        {
            let f = &c.f;
            let mut cands: Vec<B> = Vec::new();
            for v in [c.zeta.clone(), f.inv(&c.zeta).unwrap(), f.sq(&c.zeta), c.d.clone(), f.sub(&c.a, &c.d), f.inv(&b(2)).unwrap(), b(22), b(15), b(5), f.sqrt(&f.neg(&b(1))).unwrap()] {
                for k in 1u64..=4 {
                    cands.push(f.abs(&f.mul(&b(k), &v)));
                }
            }
            for sh in [64usize, 128, 192] {
                for k in 1u64..=40 {
                    cands.push(b(k) << sh);
                    cands.push((b(k) << sh) + (b(k) << (sh - 64)));
                }
            }
            let mut kept = 0;
            for s in cands {
                if s < f.p && !s.bit(0) {
                    if let Ok(p) = c.decode_spec_fe(&s) {
                        z.push(MEl { pt: p, class: "structured-encoding" });
                        kept += 1;
                        if kept >= 64 {
                            break;
                        }
                    }
                }
            }
        }
        // elements with a short affine coordinate: x = +-k or y = +-k for small k (both coset members follow below)
        {
            let f = &c.f;
            let mut kept = 0;
            for k in 1u64..=400 {
                for neg in [false, true] {
                    let x = if neg { f.neg(&b(k)) } else { b(k) };
                    // a x^2 + y^2 = 1 + d x^2 y^2  =>  y^2 = (1 - a x^2)/(1 - d x^2)
                    let x2 = f.sq(&x);
                    if let Some(y2) = f.div(&f.sub(&b(1), &f.mul(&c.a, &x2)), &f.sub(&b(1), &f.mul(&c.d, &x2))) {
                        if let Some(y) = f.sqrt(&y2) {
                            let p = Pt { x: x.clone(), y };
                            if c.on_curve(&p) && c.in_2e(&p) {
                                z.push(MEl { pt: p, class: "short-coordinate" });
                                kept += 1;
                            }
                        }
                    }
                    // y = +-k: x^2 = (1 - y^2)/(a - d y^2)
                    let y = x;
                    let yy = f.sq(&y);
                    if let Some(xx) = f.div(&f.sub(&b(1), &yy), &f.sub(&c.a, &f.mul(&c.d, &yy))) {
                        if let Some(xv) = f.sqrt(&xx) {
                            let p = Pt { x: xv, y };
                            if c.on_curve(&p) && c.in_2e(&p) && kept < 60 {
                                z.push(MEl { pt: p, class: "short-coordinate" });
                                kept += 1;
                            }
                        }
                    }
                }
                if kept >= 24 {
                    break;
                }
            }
        }
        z.push(MEl { pt: c.mul(&(&c.r - b(1)), &g), class: "(r-1)G" });
        z.push(MEl { pt: c.mul(&((&c.r - b(1)) >> 1), &g), class: "((r-1)/2)G" });

        z
    }).clone()
}

/// non-zero lambdas for projective rescalings
pub fn lambdas(c: &Curve, rng: &mut impl RngCore, nrand: usize) -> Vec<B> {
    let f = &c.f;
    let mut v = vec![b(1), b(2), f.neg(&b(1)), (&f.p + b(1)) >> 1];
    for _ in 0..nrand {
        let mut l = rand_below(rng, &f.p);
        if l.is_zero() {
            l = B::one();
        }
        v.push(l);
    }
    v
}

/// field values v whose Montgomery representation has 32-bit limb `pos` equal to 0xffffffff
/// (`ones`) or 0, the other limbs random
pub fn montgomery_limb_values(f: &Fld, rng: &mut impl RngCore, per_pos: usize) -> Vec<B> {
    let n64 = (f.bits + 63) / 64;
    let n32 = (f.bits + 31) / 32;
    let r = (b(1) << (64 * n64)) % &f.p;
    let rinv = f.inv(&r).unwrap();
    let mut out = Vec::new();
    for pos in 0..n32 {
        for _ in 0..per_pos {
            for width in [32usize, 64] {
                if width == 64 && (pos % 2 == 1 || pos + 2 > n32) {
                    continue;
                }
                let mask = ((b(1) << width) - b(1)) << (32 * pos);
                let fill = rand_below(rng, &f.p);
                let m1 = (&fill | &mask) % &f.p;
                let m0 = (&fill & ((b(1) << (32 * n32)) - b(1) - &mask)) % &f.p;
                out.push(f.mul(&m1, &rinv));
                out.push(f.mul(&m0, &rinv));
            }
        }
    }
    out
}

/// Non-canonical aliases v + p (v < p, v + p < 2^(8*nbytes)) that a *folded* comparison cannot tell from
/// their reduction: the XOR over all w-bit words of ((v+p) ^ v) is zero. A canonicity test of the form
/// "reduce, then accumulate the word differences" only notices them if it accumulates with OR.
/// With C the vector of carries of the addition v + p, (v+p) ^ v = p ^ C bit for bit, so the condition is
/// "the words of C XOR to the XOR of the words of p"; where p_b = C_b the next carry is forced, elsewhere it
/// is the (free) bit v_b. A DP over bit positions inside a word (state = carry bit of every word) finds all
/// carry patterns; v is read off a random feasible path.
pub fn fold_collision_aliases(p: &B, nbytes: usize, w: usize, rng: &mut impl RngCore, want: usize, max_tries: usize) -> Vec<B> {
    let nbits = 8 * nbytes;
    if nbits % w != 0 {
        return vec![];
    }
    let nw = nbits / w;
    if nw > 10 {
        return vec![];
    }
    let nstates = 1usize << nw;
    let pbit = |i: usize, j: usize| -> usize { p.bit((i * w + j) as u64) as usize };
    // parity target per position
    let f: Vec<usize> = (0..w).map(|j| (0..nw).fold(0, |acc, i| acc ^ pbit(i, j))).collect();
    let parity = |c: usize| -> usize { (c.count_ones() & 1) as usize };
    // allowed next states from state c at position j
    let nexts = |c: usize, j: usize| -> Vec<usize> {
        let mut out = vec![0usize];
        for i in 0..nw {
            let ci = (c >> i) & 1;
            let forced = pbit(i, j) == ci;
            let mut nxt = Vec::with_capacity(out.len() * 2);
            for o in &out {
                if forced {
                    nxt.push(o | (pbit(i, j) << i));
                } else {
                    nxt.push(*o);
                    nxt.push(o | (1 << i));
                }
            }
            out = nxt;
        }
        out
    };
    let top = b(1) << nbits;
    let mut found: Vec<B> = Vec::new();
    // guesses of the carries into bit 0 of each word (word 0 gets none)
    let mut guesses: Vec<usize> = (0..nstates).filter(|g| g & 1 == 0 && parity(*g) == f[0]).collect();
    for tries in 0..max_tries {
        if found.len() >= want || guesses.is_empty() {
            break;
        }
        let g = guesses[tries % guesses.len()];
        // end condition: carry out of word i equals the guessed carry into word i+1; no carry out of the top
        let end_ok = |e: usize| -> bool { (0..nw).all(|i| ((e >> i) & 1) == if i + 1 < nw { (g >> (i + 1)) & 1 } else { 0 }) };
        // backward feasibility
        let mut feas = vec![vec![false; nstates]; w + 1];
        for e in 0..nstates {
            feas[w][e] = end_ok(e);
        }
        for j in (0..w).rev() {
            for c in 0..nstates {
                if parity(c) != f[j] {
                    continue;
                }
                feas[j][c] = nexts(c, j).iter().any(|n| feas[j + 1][*n] && (j + 1 == w || parity(*n) == f[j + 1]));
            }
        }
        if !feas[0][g] {
            guesses.retain(|x| *x != g);
            continue;
        }
        // random feasible path; read v off it
        let mut c = g;
        let mut v = b(0);
        for j in 0..w {
            let opts: Vec<usize> = nexts(c, j).into_iter().filter(|n| feas[j + 1][*n] && (j + 1 == w || parity(*n) == f[j + 1])).collect();
            let n = opts[(rng.next_u64() % opts.len() as u64) as usize];
            for i in 0..nw {
                let ci = (c >> i) & 1;
                let vb = if pbit(i, j) == ci { (rng.next_u64() & 1) as usize } else { (n >> i) & 1 };
                if vb == 1 {
                    v += b(1) << (i * w + j);
                }
            }
            c = n;
        }
        if &v < p && &v + p < top {
            // self-check of the construction
            let d = (&v + p) ^ &v;
            let mask = (b(1) << w) - b(1);
            let fold = (0..nw).fold(b(0), |acc, i| acc ^ ((&d >> (i * w)) & &mask));
            if fold == b(0) && !found.contains(&(&v + p)) {
                found.push(&v + p);
            }
        }
    }
    found
}

/// number of Bernstein-Yang divsteps (delta = 1, f = p, g = x) until g = 0
pub fn divsteps(p: &B, x: &B) -> usize {
    use num_bigint::BigInt;
    use num_traits::{One, Zero};
    let (mut d, mut f, mut g) = (1i64, BigInt::from(p.clone()), BigInt::from(x.clone()));
    let mut n = 0;
    while !g.is_zero() && n < 100_000 {
        let odd = g.bit(0);
        if d > 0 && odd {
            let ng: BigInt = (&g - &f) >> 1usize;
            f = g;
            g = ng;
            d = 1 - d;
        } else {
            if odd {
                g = (&g + &f) >> 1usize;
            } else {
                g = g >> 1;
            }
            d = 1 + d;
        }
        n += 1;
    }
    let _ = BigInt::one();
    n
}

/// Field elements on which the divstep-based inversion of the 32-bit backend needs unusually many
/// iterations (uniform inputs need about 2.07 * bits steps with a tiny spread; the proven bound is
/// (49 bits + 57)/17 = 2.9 * bits). Found by a beam search over the bits of x, least significant first:
/// after k steps (f_k, g_k) = T_k (p, x) / 2^k for an integer matrix T_k that depends on the low k bits
/// only; candidates are ranked by the magnitude f_k and g_k will have given the bits chosen so far.
/// An iteration count "tightened" below the proven bound is only wrong on inputs like these.
pub fn divstep_worst_inputs(p: &B, width: usize, keep: usize) -> Vec<B> {
    use num_bigint::BigInt;
    use num_traits::Signed;
    use std::sync::{Mutex, OnceLock};
    static CACHE: OnceLock<Mutex<std::collections::HashMap<(Vec<u8>, usize, usize), Vec<B>>>> = OnceLock::new();
    let key = (p.to_bytes_le(), width, keep);
    if let Some(v) = CACHE.get_or_init(Default::default).lock().unwrap().get(&key) {
        return v.clone();
    }
    let nbits = p.bits() as usize;
    let pq = BigInt::from(p.clone());
    // (delta, a, b, c, e, x_low): f_k = (a p + b x)/2^k, g_k = (c p + e x)/2^k
    type St = (i64, BigInt, BigInt, BigInt, BigInt, BigInt);
    let one = BigInt::from(1);
    let zero = BigInt::from(0);
    let mut cands: Vec<St> = vec![(1, one.clone(), zero.clone(), zero.clone(), one.clone(), zero.clone())];
    for k in 0..nbits {
        let mut new: Vec<(i64, St)> = Vec::with_capacity(cands.len() * 2);
        let kk = k + 1;
        let rem = nbits.saturating_sub(kk);
        for (d, a, bq, c, e, xl) in &cands {
            for bit in 0..2u8 {
                let x = if bit == 1 { xl + (&one << k) } else { xl.clone() };
                let gk = ((c * &pq + e * &x) >> k).bit(0);
                let (nd, na, nb, nc, ne) = if *d > 0 && gk {
                    (1 - d, c * 2, e * 2, c - a, e - bq)
                } else if gk {
                    (1 + d, a * 2, bq * 2, c + a, e + bq)
                } else {
                    (1 + d, a * 2, bq * 2, c.clone(), e.clone())
                };
                let mag = |u: &BigInt, v: &BigInt| -> i64 {
                    let val: BigInt = u * &pq + v * &x;
                    let lead: BigInt = val.abs() >> kk;
                    let spread: BigInt = (v.abs() << rem) >> 1usize;
                    std::cmp::max(lead.bits(), spread.bits()) as i64
                };
                let fm = mag(&na, &nb);
                let gm = mag(&nc, &ne);
                let score = (std::cmp::min(fm, gm + 2) * 4 + std::cmp::max(fm, gm)) * 100 - nd.abs();
                new.push((score, (nd, na, nb, nc, ne, x)));
            }
        }
        new.sort_by(|x, y| y.0.cmp(&x.0));
        new.truncate(width);
        cands = new.into_iter().map(|x| x.1).collect();
    }
    let mut scored: Vec<(usize, B)> = cands
        .into_iter()
        .filter_map(|s| s.5.to_biguint())
        .filter(|x| x > &b(0) && x < p)
        .map(|x| (divsteps(p, &x), x))
        .collect();
    scored.sort_by(|x, y| y.0.cmp(&x.0));
    scored.dedup_by(|x, y| x.1 == y.1);
    let out: Vec<B> = scored.into_iter().take(keep).map(|x| x.1).collect();
    CACHE.get().unwrap().lock().unwrap().insert(key, out.clone());
    out
}


/// Values in a 2-adic relation with the modulus: k*a = p or a = k*p modulo 2^64, 2^65, 2^128 for small odd k
/// (the high part is a fixed filler). Binary GCD / Jacobi-symbol / divstep style routines subtract odd multiples
/// and strip powers of two: on such operands an intermediate has (more than) a whole zero limb at the bottom.
pub fn two_adic_relations(p: &B) -> Vec<B> {
    let mut out = Vec::new();
    let bits = p.bits() as usize;
    let fill = |seed: u64| -> B {
        // deterministic filler below p's top bits
        let mut v = b(0);
        let mut x = seed.wrapping_mul(0x9E37_79B9_7F4A_7C15) | 1;
        for i in 0..((bits + 63) / 64) {
            x ^= x << 13; x ^= x >> 7; x ^= x << 17;
            v += b(x) << (64 * i);
        }
        v % (p >> 2usize)
    };
    for (mi, m) in [64usize, 65, 128, 192].into_iter().enumerate() {
        if m + 8 >= bits {
            continue;
        }
        let modulus = b(1) << m;
        for k in [1u64, 3, 5, 7, 9, 11, 13, 15] {
            // k^-1 mod 2^m by Newton iteration on integers
            let kb = b(k);
            let mut inv = b(1);
            for _ in 0..9 {
                let t = (&kb * &inv) % &modulus;
                let two_minus = (&modulus + b(2) - t) % &modulus;
                inv = (&inv * two_minus) % &modulus;
            }
            let low_a = (p * &inv) % &modulus;          // k * a = p (mod 2^m)
            let low_b = (p * &kb) % &modulus;           // a = k * p (mod 2^m)
            for (li, low) in [low_a, low_b].into_iter().enumerate() {
                let hi = fill((mi * 100 + k as usize * 2 + li) as u64);
                let v = ((hi >> m) << m) + low;
                if &v < p && v > b(0) {
                    out.push(v.clone());
                }
                let neg = p - (&v % p);
                out.push(neg % p);
            }
        }
    }
    out
}

fn gcd_u64(a: u64, b2: u64) -> u64 {
    if b2 == 0 { a } else { gcd_u64(b2, a % b2) }
}

/// Rational expressions of small depth in the constants of the curve (1, 2, a, d, zeta): E1 = x op y over the
/// constants, E2 = E1 op constant (both orders), closed under negation and inversion at the end. Exceptional
/// inputs of formulas (roots of their linear factors, values a transposed or mis-parenthesised constant
/// expression would single out) are of this shape; about 2-3 thousand values.
pub fn constant_expressions(c: &Curve) -> Vec<B> {
    use std::sync::OnceLock;
    static CACHE: OnceLock<Vec<B>> = OnceLock::new();
    CACHE.get_or_init(|| {
        let f = &c.f;
        let e0: Vec<B> = vec![b(1), b(2), c.a.clone(), c.d.clone(), c.zeta.clone()];
        let ops = |x: &B, y: &B| -> Vec<B> {
            let mut v = vec![f.add(x, y), f.sub(x, y), f.mul(x, y)];
            if let Some(q) = f.div(x, y) {
                v.push(q);
            }
            v
        };
        let mut e1: Vec<B> = Vec::new();
        for x in &e0 {
            for y in &e0 {
                e1.extend(ops(x, y));
            }
        }
        e1.sort();
        e1.dedup();
        let mut all: Vec<B> = e0.clone();
        all.extend(e1.iter().cloned());
        for x in &e1 {
            for y in &e0 {
                all.extend(ops(x, y));
                all.extend(ops(y, x));
            }
        }
        let more: Vec<B> = all.iter().flat_map(|v| { let mut o = vec![f.neg(v)]; if let Some(i) = f.inv(v) { o.push(f.neg(&i)); o.push(i); } o }).collect();
        all.extend(more);
        all.sort();
        all.dedup();
        all
    }).clone()
}
