//! C08 — equality, hashing and identity tests are mutually coherent.
use crate::ad::*;
use crate::c04::{enc_quiet, run_program};
use crate::model::{b, B};
use crate::mon::{guarded, par, rng_for, Rec};
use crate::sh::*;
use crate::zoo::{rand_below, rand_range};
use serde_json::json;

const P: &str = "C08";

#[cfg(feature = "ark")]
pub mod arkp {
    use super::*;
    use ark_ec::{AffineRepr, CurveGroup};
    use ark_ff::Zero;
    use std::hash::{Hash, Hasher};
    pub type Af = <El as CurveGroup>::Affine;

    /// records exactly the bytes fed to it
    #[derive(Default)]
    pub struct ByteRecorder(pub Vec<u8>);
    impl Hasher for ByteRecorder {
        fn finish(&self) -> u64 {
            0
        }
        fn write(&mut self, bytes: &[u8]) {
            self.0.extend_from_slice(bytes);
        }
    }
    /// records the *calls* made on the hasher (a word-oriented hasher such as FxHash or aHash treats
    /// `write_u64(x)` and `write(&x.to_ne_bytes())` differently): the trace is appended to the byte record
    #[derive(Default)]
    pub struct CallRecorder(pub Vec<u8>);
    impl Hasher for CallRecorder {
        fn finish(&self) -> u64 { 0 }
        fn write(&mut self, bytes: &[u8]) { self.0.push(b'B'); self.0.extend_from_slice(&(bytes.len() as u32).to_le_bytes()); self.0.extend_from_slice(bytes); }
        fn write_u8(&mut self, i: u8) { self.0.push(b'1'); self.0.push(i); }
        fn write_u16(&mut self, i: u16) { self.0.push(b'2'); self.0.extend_from_slice(&i.to_le_bytes()); }
        fn write_u32(&mut self, i: u32) { self.0.push(b'4'); self.0.extend_from_slice(&i.to_le_bytes()); }
        fn write_u64(&mut self, i: u64) { self.0.push(b'8'); self.0.extend_from_slice(&i.to_le_bytes()); }
        fn write_u128(&mut self, i: u128) { self.0.push(b'X'); self.0.extend_from_slice(&i.to_le_bytes()); }
        fn write_usize(&mut self, i: usize) { self.0.push(b'U'); self.0.extend_from_slice(&(i as u64).to_le_bytes()); }
    }
    pub fn hashes_el(e: &El) -> (u64, Vec<u8>) {
        let mut h = std::collections::hash_map::DefaultHasher::new();
        e.hash(&mut h);
        let mut r = ByteRecorder::default();
        e.hash(&mut r);
        let mut cr = CallRecorder::default();
        e.hash(&mut cr);
        r.0.extend_from_slice(b"|calls|");
        r.0.extend_from_slice(&cr.0);
        (h.finish(), r.0)
    }
    pub fn hashes_af(e: &Af) -> (u64, Vec<u8>) {
        let mut h = std::collections::hash_map::DefaultHasher::new();
        e.hash(&mut h);
        let mut r = ByteRecorder::default();
        e.hash(&mut r);
        let mut cr = CallRecorder::default();
        e.hash(&mut cr);
        r.0.extend_from_slice(b"|calls|");
        r.0.extend_from_slice(&cr.0);
        (h.finish(), r.0)
    }
    /// hashes of containers holding the element (slices, Vec, arrays, tuples, Option): `Hash::hash_slice`
    /// and the container impls must stay consistent with `==` as well
    pub fn container_hashes(e: &El, other: &El) -> Vec<(&'static str, u64)> {
        fn h<T: Hash + ?Sized>(t: &T) -> u64 {
            let mut s = std::collections::hash_map::DefaultHasher::new();
            t.hash(&mut s);
            s.finish()
        }
        let (a, o): (Af, Af) = ((*e).into(), (*other).into());
        vec![
            ("[Element] (1)", h(&[*e][..])),
            ("[Element] (2, first)", h(&[*e, *other][..])),
            ("[Element] (2, second)", h(&[*other, *e][..])),
            ("[Element] (3, middle)", h(&[*other, *e, *other][..])),
            ("Vec<Element>", h(&vec![*e, *other, *e])),
            ("[Element; 2]", h(&[*e, *other])),
            ("(Element, Element)", h(&(*e, *other))),
            ("Option<Element>", h(&Some(*e))),
            ("[AffinePoint] (1)", h(&[a][..])),
            ("[AffinePoint] (2, second)", h(&[o, a][..])),
            ("Vec<AffinePoint>", h(&vec![a, o, a])),
            ("(AffinePoint, Element)", h(&(a, *e))),
        ]
    }
    /// all identity predicates of Element: must be all-true or all-false
    pub fn identity_predicates(e: &El) -> Vec<(&'static str, bool)> {
        let a: Af = (*e).into();
        vec![
            ("Element::is_identity", e.is_identity()),
            ("Zero::is_zero", Zero::is_zero(e)),
            ("== Element::IDENTITY", *e == El::IDENTITY),
            ("IDENTITY ==", El::IDENTITY == *e),
            ("== Element::default()", *e == El::default()),
            ("== Zero::zero()", *e == <El as Zero>::zero()),
            ("AffineRepr::is_zero", AffineRepr::is_zero(&a)),
            ("AffinePoint == AffineRepr::zero()", a == <Af as AffineRepr>::zero()),
            ("AffinePoint == default()", a == Af::default()),
            ("AffineRepr::xy().is_none()", a.xy().is_none()),
            ("encoding == 0^32", enc(e) == [0u8; 32]),
        ]
    }
    pub fn extra_members(p: &El) -> Vec<(&'static str, El)> {
        let a: Af = (*p).into();
        vec![("into_affine->into_group", a.into_group()), ("normalize_batch", El::normalize_batch(&[*p])[0].into())]
    }
}

#[cfg(feature = "min")]
mod minp {
    use super::*;
    pub fn identity_predicates(e: &El) -> Vec<(&'static str, bool)> {
        vec![
            ("Element::is_identity", e.is_identity()),
            ("== Element::IDENTITY", *e == El::IDENTITY),
            ("IDENTITY ==", El::IDENTITY == *e),
            ("encoding == 0^32", enc(e) == [0u8; 32]),
        ]
    }
    pub fn extra_members(_p: &El) -> Vec<(&'static str, El)> {
        vec![]
    }
}
#[cfg(feature = "ark")]
use arkp::*;
#[cfg(feature = "min")]
use minp::*;

/// many differently-represented copies of one element, built through the public API and
/// through the coordinate hook
fn equal_family(ctx: &Ctx, p: &SE, q: &SE, rng: &mut rand_chacha::ChaCha20Rng) -> Vec<(&'static str, El)> {
    let c = &ctx.c;
    let lam = {
        let mut l = rand_below(rng, &c.f.p);
        if l == b(0) {
            l = b(5);
        }
        l
    };
    let rm1 = fr(&(&c.r - b(1)));
    let (lp, lq) = (p.l, q.l);
    let mut v: Vec<(&'static str, El)> = vec![
        ("P", lp),
        ("other-rep (hook)", from_pt(c, &c.torque(&p.m))),
        ("rescaled (hook)", from_pt_scaled(c, &p.m, &lam)),
        ("other-rep rescaled (hook)", from_pt_scaled(c, &c.torque(&p.m), &lam)),
        ("-(-P)", -(-lp)),
        ("(r-1)*(-P)", (-lp) * rm1),
        ("P+Q-Q", (lp + lq) - lq),
        ("Q+P-Q", (lq + lp) - lq),
        ("decode(encode(P))", dec(&enc(&lp)).unwrap_or(lp)),
        ("2P-P", (lp + lp) - lp),
    ];
    v.extend(extra_members(&lp));
    v
}

fn identity_family(ctx: &Ctx, q: &SE, rng: &mut rand_chacha::ChaCha20Rng) -> Vec<(&'static str, El)> {
    let c = &ctx.c;
    let lam = {
        let mut l = rand_below(rng, &c.f.p);
        if l == b(0) {
            l = b(5);
        }
        l
    };
    let lq = q.l;
    let m1 = fr(&(&c.r - b(1)));
    let zero = fr(&b(0));
    #[allow(unused_mut)]
    let mut v: Vec<(&'static str, El)> = vec![
        ("IDENTITY", El::IDENTITY),
        ("(0,-1) (hook)", from_pt(c, &c.t2())),
        ("lambda*(0,1) (hook)", from_pt_scaled(c, &c.identity(), &lam)),
        ("lambda*(0,-1) (hook)", from_pt_scaled(c, &c.t2(), &lam)),
        ("Q + (-1)*Q", lq + lq * m1),
        ("Q - Q", lq - lq),
        ("0*Q", lq * zero),
        ("Q + (-Q)", lq + (-lq)),
        ("decode(0^32)", dec(&[0u8; 32]).unwrap_or(El::IDENTITY)),
        ("(-Q) + Q'", (-lq) + from_pt(c, &c.torque(&q.m))),
    ];
    #[cfg(feature = "ark")]
    {
        use ark_ec::{AffineRepr, Group};
        use ark_ff::Zero;
        v.push(("default()", El::default()));
        v.push(("Zero::zero()", <El as Zero>::zero()));
        v.push(("AffineRepr::zero().into_group()", <Af as AffineRepr>::zero().into_group()));
        v.push(("r*Q via mul_bigint", Group::mul_bigint(&lq, c.r.to_u64_digits())));
    }
    v
}

pub fn run(ctx: &Ctx, rec: &mut Rec) {
    let c = &ctx.c;
    let mut zrng = rng_for(ctx.seed, P, 999, 0);
    let zoo = shadow_zoo(ctx, &mut zrng, ctx.scale(200, 600));
    for cl in ["equal-pair", "unequal-pair", "identity-family", "non-identity", "program-register"] {
        rec.declare_class(cl);
    }
    par(rec, |w, n, rec| {
        let mut rng = rng_for(ctx.seed, P, w, 1);
        for (i, p) in zoo.iter().enumerate() {
            if i % n != w {
                continue;
            }
            let q = zoo[rand_range(&mut rng, zoo.len())].clone();
            // ---- equal family of P plus some unequal elements
            let fam = match guarded(|| equal_family(ctx, p, &q, &mut rng.clone())) {
                Ok(f) => f,
                Err(pn) => {
                    rec.violation(format!("{P}:family:panic"), format!("building the equal family panicked: {pn}"), json!({"P": el_json(&p.l)}));
                    continue;
                }
            };
            let _ = rng.next_u64_compat();
            let mut members: Vec<(&'static str, El, crate::model::Pt)> = fam.into_iter().map(|(nm, e)| (nm, e, p.m.clone())).collect();
            members.push(("Q", q.l, q.m.clone()));
            members.push(("-P", -p.l, c.neg(&p.m)));
            members.push(("other representative of -P (hook)", from_pt(c, &c.torque(&c.neg(&p.m))), c.neg(&p.m)));
            members.push(("P+G", p.l + El::GENERATOR, c.add(&p.m, &ctx.g)));
            check_pairs(ctx, rec, &members);
            // ---- identity family and predicates
            let idf = match guarded(|| identity_family(ctx, &q, &mut rng.clone())) {
                Ok(f) => f,
                Err(pn) => {
                    rec.violation(format!("{P}:identity-family:panic"), format!("building the identity family panicked: {pn}"), json!({"Q": el_json(&q.l)}));
                    continue;
                }
            };
            for (nm, e) in &idf {
                rec.class("identity-family");
                predicates(rec, nm, e, true);
            }
            let idm: Vec<(&'static str, El, crate::model::Pt)> = idf.into_iter().map(|(nm, e)| (nm, e, c.identity())).collect();
            check_pairs(ctx, rec, &idm);
            if p.m.x != b(0) {
                rec.class("non-identity");
                predicates(rec, "P", &p.l, false);
            }
            if i < 2 {
                rec.sample(json!({"P": el_json(&p.l), "class": p.class, "family": members.iter().map(|m| m.0).collect::<Vec<_>>()}));
            }
        }
        // program registers: pairs inside the register file
        let nprog = ctx.scale(8000, 60000);
        for pi in 0..nprog {
            if pi % n != w {
                continue;
            }
            let len = 6 + rand_range(&mut rng, 30);
            let regs = run_program(ctx, rec, P, &mut rng, &zoo, len, false);
            rec.count("programs", 1);
            let members: Vec<(&'static str, El, crate::model::Pt)> = regs.iter().map(|r| ("register", r.l, r.m.clone())).collect();
            rec.class("program-register");
            check_pairs(ctx, rec, &members);
            for r in &regs {
                predicates(rec, "register", &r.l, r.m.x == b(0));
            }
        }
    });
    // object-lifecycle programs: ==, Hash and the identity predicates on persistent Element / AffinePoint
    // objects of every provenance that were mutated in place (affine-only arithmetic included)
    par(rec, |w, n, rec| crate::life::programs(ctx, rec, P, crate::life::EQHASH, w, n, ctx.scale(1500, 30000), &zoo));
    rec.check_coverage();
}

trait NextCompat {
    fn next_u64_compat(&mut self) -> u64;
}
impl NextCompat for rand_chacha::ChaCha20Rng {
    fn next_u64_compat(&mut self) -> u64 {
        use rand_core::RngCore;
        self.next_u64()
    }
}

fn predicates(rec: &mut Rec, name: &str, e: &El, want: bool) {
    let e2 = *e;
    rec.evals += 1;
    match guarded(|| identity_predicates(&e2)) {
        Err(pn) => rec.violation(format!("{P}:predicates:panic"), format!("identity predicate panicked on {name}: {pn}"), json!({"element": el_json(e)})),
        Ok(ps) => {
            for (pname, val) in ps {
                rec.form(pname);
                if val != want {
                    rec.violation(format!("{P}:identity-predicate:{pname}"), format!("{pname} = {val} on `{name}`, which {} the identity", if want { "is" } else { "is not" }), json!({"element": el_json(e), "how": name}));
                }
            }
        }
    }
}

fn check_pairs(ctx: &Ctx, rec: &mut Rec, members: &[(&'static str, El, crate::model::Pt)]) {
    let c = &ctx.c;
    let encs: Vec<[u8; 32]> = members.iter().map(|m| enc_quiet(&m.1)).collect();
    #[cfg(feature = "ark")]
    let hashes: Vec<((u64, Vec<u8>), (u64, Vec<u8>))> = members
        .iter()
        .map(|m| {
            let e = m.1;
            guarded(|| (hashes_el(&e), hashes_af(&e.into()))).unwrap_or(((0, vec![0xee]), (0, vec![0xee])))
        })
        .collect();
    for i in 0..members.len() {
        for j in 0..members.len() {
            if i == j {
                continue;
            }
            let (a, bb) = (&members[i], &members[j]);
            let meq = c.eq(&a.2, &bb.2);
            rec.class(if meq { "equal-pair" } else { "unequal-pair" });
            let key: (Vec<u8>, Vec<u8>, B, B) = (encs[i].to_vec(), encs[j].to_vec(), coords(&a.1).2, coords(&bb.1).2);
            rec.eval(&key, a.2.x == b(0) && bb.2.x == b(0) && false);
            let (la, lb) = (a.1, bb.1);
            let leq = match guarded(|| la == lb) {
                Ok(v) => v,
                Err(pn) => {
                    rec.violation(format!("{P}:eq:panic"), format!("== panicked: {pn}"), json!({"a": el_json(&a.1), "b": el_json(&bb.1)}));
                    continue;
                }
            };
            rec.form("Element ==");
            rec.form("Element !=");
            {
                let (ne1, ne2, eq2) = guarded(|| (la != lb, lb != la, lb == la)).unwrap_or((!leq, !leq, leq));
                if ne1 == leq || ne2 == leq || eq2 != leq {
                    rec.violation(format!("{P}:ne-vs-eq"), format!("`{}` vs `{}`: == is {leq}, reversed == is {eq2}, != is {ne1}, reversed != is {ne2}", a.0, bb.0), json!({"a": el_json(&a.1), "b": el_json(&bb.1)}));
                }
            }
            let beq = encs[i] == encs[j];
            if leq != beq {
                rec.violation(format!("{P}:eq-vs-encoding"), format!("`{}` == `{}` is {leq} but encodings-equal is {beq}", a.0, bb.0), json!({"a": el_json(&a.1), "b": el_json(&bb.1), "enc_a": hex::encode(encs[i]), "enc_b": hex::encode(encs[j])}));
            }
            if leq != meq {
                rec.violation(format!("{P}:eq-vs-model"), format!("`{}` == `{}` is {leq} but the model says {meq}", a.0, bb.0), json!({"a": el_json(&a.1), "b": el_json(&bb.1)}));
            }
            #[cfg(feature = "ark")]
            {
                let (aa, ab): (Af, Af) = (la.into(), lb.into());
                rec.form("AffinePoint ==");
                rec.form("Hash for Element");
                rec.form("Hash for AffinePoint");
                let aeq = guarded(|| aa == ab).unwrap_or(!meq);
                rec.form("AffinePoint !=");
                {
                    let (ne1, ne2) = guarded(|| (aa != ab, ab.ne(&aa))).unwrap_or((!aeq, !aeq));
                    if ne1 == aeq || ne2 == aeq {
                        rec.violation(format!("{P}:affine-ne-vs-eq"), format!("AffinePoint `{}` vs `{}`: == is {aeq}, != is {ne1}, reversed ne() is {ne2}", a.0, bb.0), json!({"a": el_json(&a.1), "b": el_json(&bb.1)}));
                    }
                }
                if aeq != meq {
                    rec.violation(format!("{P}:affine-eq-vs-model"), format!("AffinePoint `{}` == `{}` is {aeq} but the model says {meq}", a.0, bb.0), json!({"a": el_json(&a.1), "b": el_json(&bb.1)}));
                }
                if leq && hashes[i].0 != hashes[j].0 {
                    rec.violation(format!("{P}:hash:element"), format!("`{}` == `{}` but their hashes differ", a.0, bb.0), json!({"a": el_json(&a.1), "b": el_json(&bb.1)}));
                }
                if aeq && hashes[i].1 != hashes[j].1 {
                    rec.violation(format!("{P}:hash:affine"), format!("AffinePoint `{}` == `{}` but their hashes differ", a.0, bb.0), json!({"a": el_json(&a.1), "b": el_json(&bb.1)}));
                }
                if leq && aeq && (i + j) % 3 == 0 {
                    // containers of equal elements must hash equally too (Hash::hash_slice, tuple/Option/Vec impls)
                    let other = members[(i + 1) % members.len()].1;
                    rec.form("Hash of containers");
                    if let (Ok(ca), Ok(cb)) = (guarded(|| container_hashes(&la, &other)), guarded(|| container_hashes(&lb, &other))) {
                        for ((name, ha), (_, hb)) in ca.iter().zip(cb.iter()) {
                            rec.evals += 1;
                            if ha != hb {
                                rec.violation(format!("{P}:hash:container:{name}"), format!("`{}` == `{}` but {name} containers holding them hash differently", a.0, bb.0), json!({"a": el_json(&a.1), "b": el_json(&bb.1)}));
                            }
                        }
                    }
                }
            }
        }
    }
}
