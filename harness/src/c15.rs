//! C15 — circuit shape is input-independent and matches the pinned Groth16 keys.
use crate::ad::*;
use crate::c13::{inp_json, inputs_for};
use crate::model::{b, hexs, B};
use crate::mon::{guarded, par, rng_for, Rec};
use crate::r1::*;
use crate::sh::*;
use crate::zoo::{rand_below, rand_range};
use ark_ff::ToConstraintField;
use ark_groth16::{r1cs_to_qap::LibsnarkReduction, Groth16, ProvingKey, VerifyingKey};
use ark_r1cs_std::prelude::*;
use ark_relations::r1cs::{ConstraintSynthesizer, ConstraintSystemRef, SynthesisError};
use ark_serialize::CanonicalDeserialize;
use ark_snark::SNARK;
use decaf377::r1cs::{ElementVar, FqVar};
use decaf377::Bls12_377;
use serde_json::json;

const P: &str = "C15";
const VECTORS: &str = "/repo/tests/test_vectors";

// ---- the seven circuits of tests/groth16_gadgets.rs, re-stated (they are test-local types)
#[derive(Clone)]
pub enum Pinned {
    DiscreteLog { scalar: [u8; 32], public: El },
    Compression { point: El, field_element: Fq },
    Decompression { field_element: Fq, point: El },
    Elligator { field_element: Fq, point: El },
    PublicElementInput { point: El },
    Negation { pos: El, public_neg: El },
    AddAssignAdd { a: El, b: El, c: El, d: El },
}

impl Pinned {
    pub fn name(&self) -> &'static str {
        match self {
            Pinned::DiscreteLog { .. } => "discrete_log",
            Pinned::Compression { .. } => "compression",
            Pinned::Decompression { .. } => "decompression",
            Pinned::Elligator { .. } => "elligator",
            Pinned::PublicElementInput { .. } => "public_element_input",
            Pinned::Negation { .. } => "negation",
            Pinned::AddAssignAdd { .. } => "add_assign_add",
        }
    }
    pub fn public_inputs(&self) -> Vec<Fq> {
        match self {
            Pinned::DiscreteLog { public, .. } => public.to_field_elements().unwrap(),
            Pinned::Compression { field_element, .. } => vec![*field_element],
            Pinned::Decompression { point, .. } => point.to_field_elements().unwrap(),
            Pinned::Elligator { point, .. } => point.to_field_elements().unwrap(),
            Pinned::PublicElementInput { point } => point.to_field_elements().unwrap(),
            Pinned::Negation { public_neg, .. } => public_neg.to_field_elements().unwrap(),
            Pinned::AddAssignAdd { c, d, .. } => {
                let mut v = c.to_field_elements().unwrap();
                v.extend(d.to_field_elements().unwrap());
                v
            }
        }
    }
}

impl ConstraintSynthesizer<Fq> for Pinned {
    fn generate_constraints(self, cs: ConstraintSystemRef<Fq>) -> Result<(), SynthesisError> {
        match self {
            Pinned::DiscreteLog { scalar, public } => {
                let witness_vars = UInt8::new_witness_vec(cs.clone(), &scalar)?;
                let compressed_public = public.vartime_compress_to_field();
                let public_var: ElementVar = AllocVar::new_input(cs.clone(), || Ok(compressed_public))?;
                let basepoint_var = ElementVar::new_constant(cs, El::GENERATOR)?;
                let test_public = basepoint_var.scalar_mul_le(witness_vars.to_bits_le()?.iter())?;
                public_var.enforce_equal(&test_public)?;
            }
            Pinned::Compression { point, field_element } => {
                let witness_var = ElementVar::new_witness(cs.clone(), || Ok(point))?;
                let public_var = FqVar::new_input(cs, || Ok(field_element))?;
                let test_public = witness_var.compress_to_field()?;
                public_var.enforce_equal(&test_public)?;
            }
            Pinned::Decompression { field_element, point } => {
                let witness_var = FqVar::new_witness(cs.clone(), || Ok(field_element))?;
                let compressed_public = point.vartime_compress_to_field();
                let public_var: ElementVar = AllocVar::new_input(cs, || Ok(compressed_public))?;
                let test_public = ElementVar::decompress_from_field(witness_var)?;
                public_var.enforce_equal(&test_public)?;
            }
            Pinned::Elligator { field_element, point } => {
                let witness_var = FqVar::new_witness(cs.clone(), || Ok(field_element))?;
                let public_var: ElementVar = AllocVar::new_input(cs, || Ok(point))?;
                let test_public = ElementVar::encode_to_curve(&witness_var)?;
                public_var.enforce_equal(&test_public)?;
            }
            Pinned::PublicElementInput { point } => {
                let _public_var: ElementVar = AllocVar::new_input(cs, || Ok(point))?;
            }
            Pinned::Negation { pos, public_neg } => {
                let pos = ElementVar::new_witness(cs.clone(), || Ok(pos))?;
                let public_neg = ElementVar::new_input(cs, || Ok(public_neg))?;
                let neg: ElementVar = pos.negate()?;
                neg.enforce_equal(&public_neg)?;
            }
            Pinned::AddAssignAdd { a, b, c, d } => {
                let a = ElementVar::new_witness(cs.clone(), || Ok(a))?;
                let b = ElementVar::new_witness(cs.clone(), || Ok(b))?;
                let c_pub = ElementVar::new_input(cs.clone(), || Ok(c))?;
                let c_add = a.clone() + b.clone();
                let mut c_add_assign = a.clone();
                c_add_assign += b.clone();
                c_add.enforce_equal(&c_pub)?;
                c_add_assign.enforce_equal(&c_pub)?;
                let d_pub = ElementVar::new_input(cs, || Ok(d))?;
                let d_sub = a.clone() - b.clone();
                let mut d_sub_assign = a.clone();
                d_sub_assign -= b;
                d_sub.enforce_equal(&d_pub)?;
                d_sub_assign.enforce_equal(&d_pub)?;
            }
        }
        Ok(())
    }
}

/// honest instances of the seven circuits from hostile element / field inputs
pub fn pinned_instances(ctx: &Ctx, zoo: &[SE], rng: &mut rand_chacha::ChaCha20Rng, per_circuit: usize) -> Vec<(Pinned, String)> {
    let c = &ctx.c;
    let mut out: Vec<(Pinned, String)> = Vec::new();
    let pick = |rng: &mut rand_chacha::ChaCha20Rng, i: usize| -> &SE {
        if i < zoo.len().min(8) {
            &zoo[i]
        } else {
            &zoo[rand_range(rng, zoo.len())]
        }
    };
    for i in 0..per_circuit {
        // discrete log: scalar bytes incl. 0, r-1, 2^256-1
        let k: B = match i {
            0 => b(0),
            1 => &c.r - b(1),
            2 => (b(1) << 256) - b(1),
            3 => b(1),
            4 => c.r.clone(),
            _ => crate::model::from_le(&crate::zoo::rand_bytes(rng, 32)),
        };
        let scalar = arr32(&crate::model::to_le(&k, 32));
        let public = Fr::from_le_bytes_mod_order(&scalar) * El::GENERATOR;
        out.push((Pinned::DiscreteLog { scalar, public }, format!("scalar={}", if i < 5 { ["0", "r-1", "2^256-1", "1", "r"][i] } else { "random" })));
        let p = pick(rng, i);
        out.push((Pinned::Compression { point: p.l, field_element: p.l.vartime_compress_to_field() }, p.class.to_string()));
        let p = pick(rng, i + 1);
        out.push((Pinned::Decompression { field_element: p.l.vartime_compress_to_field(), point: p.l }, p.class.to_string()));
        let r0 = match i {
            0 => b(0),
            1 => b(1),
            2 => &c.f.p - b(1),
            _ => rand_below(rng, &c.f.p),
        };
        let lr0 = fq(&r0);
        out.push((Pinned::Elligator { field_element: lr0, point: El::encode_to_curve(&lr0) }, format!("r0={}", if i < 3 { ["0", "1", "-1"][i] } else { "random" })));
        let p = pick(rng, i + 2);
        out.push((Pinned::PublicElementInput { point: p.l }, p.class.to_string()));
        let p = pick(rng, i + 3);
        out.push((Pinned::Negation { pos: p.l, public_neg: -p.l }, p.class.to_string()));
        let (p, q) = (pick(rng, i + 4).clone(), pick(rng, i + 5).clone());
        out.push((Pinned::AddAssignAdd { a: p.l, b: q.l, c: p.l + q.l, d: p.l - q.l }, format!("{}|{}", p.class, q.class)));
    }
    out
}

/// The third synthesis mode (`Prove { construct_matrices: false }`, the witness-generation pass of provers that
/// keep the matrices from setup): the same variables in the same order with the same values, and the same
/// number of constraints, as the ordinary proving-mode synthesis. Ok(None) = both syntheses refused alike.
fn witness_only_agrees(synth: &dyn Fn(&CS) -> Result<(), String>) -> Result<Option<()>, String> {
    let full = new_cs(false);
    // a gadget may refuse an input (error, or a panic inside arkworks when a value is read): a refusal in both
    // modes is agreement
    let r1 = guarded(|| synth(&full)).unwrap_or_else(|p| Err(format!("panic: {}", p.lines().next().unwrap_or(""))));
    let wo = new_cs(false);
    wo.set_mode(ark_relations::r1cs::SynthesisMode::Prove { construct_matrices: false });
    let r2 = guarded(|| synth(&wo)).unwrap_or_else(|p| Err(format!("panic: {}", p.lines().next().unwrap_or(""))));
    match (r1, r2) {
        (Err(_), Err(_)) => Ok(None),
        (Ok(()), Err(e)) => Err(format!("witness-only synthesis fails ({e}) where proving-mode synthesis succeeds")),
        (Err(e), Ok(())) => Err(format!("proving-mode synthesis fails ({e}) where witness-only synthesis succeeds")),
        (Ok(()), Ok(())) => {
            let (a, b2) = (full.borrow().unwrap(), wo.borrow().unwrap());
            if (a.num_instance_variables, a.num_witness_variables, a.num_constraints) != (b2.num_instance_variables, b2.num_witness_variables, b2.num_constraints) {
                return Err(format!("(instance, witness, constraints) = ({}, {}, {}) in proving mode but ({}, {}, {}) in witness-only mode", a.num_instance_variables, a.num_witness_variables, a.num_constraints, b2.num_instance_variables, b2.num_witness_variables, b2.num_constraints));
            }
            if a.instance_assignment != b2.instance_assignment {
                return Err("instance assignments differ between proving mode and witness-only mode".into());
            }
            if let Some(k) = (0..a.witness_assignment.len()).find(|&k| a.witness_assignment[k] != b2.witness_assignment[k]) {
                return Err(format!("witness variable {k} differs between proving mode and witness-only mode"));
            }
            Ok(Some(()))
        }
    }
}

fn shape_of_pinned(pc: &Pinned, setup: bool) -> Result<Shape, String> {
    let cs = new_cs(setup);
    pc.clone().generate_constraints(cs.clone()).map_err(|e| format!("{e:?}"))?;
    Ok(shape(&cs))
}

pub fn load_keys(name: &str) -> Result<(ProvingKey<Bls12_377>, VerifyingKey<Bls12_377>), String> {
    let pk_bytes = std::fs::read(format!("{VECTORS}/{name}_pk.bin")).map_err(|e| format!("{e}"))?;
    let vk_bytes = std::fs::read(format!("{VECTORS}/{name}_vk.param")).map_err(|e| format!("{e}"))?;
    // validated deserialisation (checks every point is on curve and in the subgroup)
    let pk = ProvingKey::<Bls12_377>::deserialize_uncompressed(&pk_bytes[..]).map_err(|e| format!("pk: {e:?}"))?;
    let vk = VerifyingKey::<Bls12_377>::deserialize_uncompressed(&vk_bytes[..]).map_err(|e| format!("vk: {e:?}"))?;
    Ok((pk, vk))
}

pub fn run(ctx: &Ctx, rec: &mut Rec) {
    let gs = gadgets();
    let mut zrng = rng_for(ctx.seed, P, 999, 0);
    let zoo = elements_for_gadgets(ctx, &mut zrng, ctx.scale(10, 50));
    // gadgets over constant-mode operands have no variable input: the constant is a circuit
    // parameter (an invalid constant encoding is simply not a circuit), nothing to compare
    let gs: Vec<Gadget> = gs.into_iter().filter(|g| !g.name.contains("(constant")).collect();
    for g in &gs {
        rec.declare_form(&format!("shape: {}", g.name));
    }
    // ---- (1) every single gadget: identical shape for every input, and in setup mode
    let mut work: Vec<(usize, Vec<(Inp, String)>)> = Vec::new();
    for (gi, g) in gs.iter().enumerate() {
        let budget = match g.kind {
            "EBits" => ctx.scale(30, 200),
            _ => ctx.scale(80, 600),
        };
        if g.kind == "EE" && g.name.ends_with("Element") {
            // the second operand is a circuit *constant*: the matrices legitimately contain it, so
            // shapes are compared across variable inputs for a fixed constant only
            let consts = [zoo[0].clone(), zoo[2].clone(), zoo[zoo.len() / 2].clone(), zoo[zoo.len() - 1].clone()];
            let mut v = Vec::new();
            for (ci, k) in consts.iter().enumerate() {
                for e in zoo.iter().take(budget / 4) {
                    v.push((Inp::EE(e.l, k.l), format!("{}|const#{ci}", e.class)));
                }
            }
            work.push((gi, v));
            continue;
        }
        work.push((gi, inputs_for(ctx, g, &zoo, &mut zrng, budget)));
    }
    par(rec, |w, n, rec| {
        for (gi, inputs) in work.iter() {
            if gi % n != w {
                continue;
            }
            let g = &gs[*gi];
            let name = format!("shape: {}", g.name);
            // scalar_mul_le: shape legitimately depends on the *number* of bits (a public parameter)
            let mut reference: std::collections::BTreeMap<usize, (Shape, String)> = Default::default();
            for (inp, class) in inputs {
                let param = match inp {
                    Inp::EBits(_, bits) => bits.len(),
                    Inp::EE(..) if class.contains("|const#") => class.rsplit('#').next().unwrap().parse::<usize>().unwrap() + 1,
                    _ => 0,
                };
                for setup in [false, true] {
                    rec.form(&name);
                    rec.eval(&(g.name, format!("{:?}", inp_json(inp)), setup), false);
                    let inp2 = inp.clone();
                    let res = guarded(|| {
                        let run = execute(g, &inp2, setup);
                        if run.synth_ok { Ok(shape(&run.cs)) } else { Err(run.synth_err.unwrap_or_default()) }
                    });
                    let sh = match res {
                        Ok(Ok(s)) => s,
                        Ok(Err(_)) | Err(_) => {
                            // synthesis may legitimately abort in proving mode on natively-invalid input
                            let inp3 = inp.clone();
                            let native_ok = guarded(|| (g.native)(&inp3)).ok().flatten().is_some();
                            if native_ok || setup {
                                rec.violation(format!("{P}:{name}:synthesis-fails"), format!("synthesis of {} fails ({}) on {class}", g.name, if setup { "setup mode" } else { "proving mode" }), inp_json(inp));
                            } else {
                                rec.count("synthesis aborted on natively-invalid input (proving mode)", 1);
                            }
                            continue;
                        }
                    };
                    match reference.get(&param) {
                        None => {
                            reference.insert(param, (sh, format!("{class}{}", if setup { " (setup)" } else { "" })));
                        }
                        Some((r0, c0)) => {
                            rec.count("shape_comparisons", 1);
                            if r0 != &sh {
                                rec.violation(format!("{P}:{name}:shape-depends-on-input"), format!("{}: shape {:?} on `{class}`{} differs from {:?} on `{c0}`", g.name, sh, if setup { " (setup mode)" } else { "" }, r0), inp_json(inp));
                            }
                        }
                    }
                }
                // witness-only synthesis mode against proving mode
                {
                    let inp2 = inp.clone();
                    rec.eval(&(g.name, format!("{:?}", inp_json(inp)), 2u8), false);
                    match guarded(|| witness_only_agrees(&|cs: &CS| (g.run)(cs, &inp2).map(|_| ()).map_err(|e| format!("{e:?}")))) {
                        Ok(Ok(Some(()))) => rec.count("witness_only_mode_comparisons", 1),
                        Ok(Ok(None)) => {}
                        Ok(Err(why)) => rec.violation(format!("{P}:{name}:witness-only-mode-differs"), format!("{} on `{class}`: {why}", g.name), inp_json(inp)),
                        Err(pn) => rec.violation(format!("{P}:{name}:witness-only-mode-differs"), format!("{} on `{class}`: panic {pn}", g.name), inp_json(inp)),
                    }
                }
                // blank setup: the circuit synthesised with every witness value missing (the way key generation
                // is usually run). The gadgets may refuse (AssignmentMissing: counted); if a system is
                // produced it must be the very same system as in proving mode.
                {
                    let inp2 = inp.clone();
                    let res = guarded(|| {
                        crate::r1::BLANK.with(|bl| bl.set(true));
                        let run = execute(g, &inp2, true);
                        crate::r1::BLANK.with(|bl| bl.set(false));
                        if run.synth_ok { Some(shape(&run.cs)) } else { None }
                    });
                    crate::r1::BLANK.with(|bl| bl.set(false));
                    match res {
                        Ok(Some(sh)) => {
                            rec.count("blank_setup_syntheses_succeeded", 1);
                            if let Some((r0, c0)) = reference.get(&param) {
                                rec.count("shape_comparisons", 1);
                                if r0 != &sh {
                                    rec.violation(format!("{P}:{name}:blank-setup-shape"), format!("{}: setup-mode synthesis without witness values gives shape {:?}, but {:?} on `{c0}`", g.name, sh, r0), inp_json(inp));
                                }
                            }
                        }
                        _ => rec.count("blank_setup_syntheses_refused", 1),
                    }
                }
            }
        }
    });

    // ---- (2) public-input allocation: exactly one instance variable = compress_to_field(E)
    rec.declare_form("public input: instance assignment");
    let sparse: Vec<SE> = crate::zoo::sparse_encoding_elements(&ctx.c).iter().map(|m| present(&ctx.c, m, None)).collect();
    rec.count("public inputs with a sparse encoding", sparse.len() as u64);
    par(rec, |w, n, rec| {
        for (i, e) in zoo.iter().chain(sparse.iter()).enumerate() {
            if i % n != w {
                continue;
            }
            // identity representatives (and every third element) go through both allocation paths
            let paths: Vec<bool> = if e.m.x == b(0) || i % 3 == 0 { vec![false, true] } else { vec![i % 2 == 1] };
            for via_affine in paths {
            rec.form("public input: instance assignment");
            rec.eval(&("instance", e.key(), coords(&e.l).2.to_bytes_le(), via_affine), false);
            let l = e.l;
            rec.count(if via_affine { "public inputs allocated from AffinePoint" } else { "public inputs allocated from Element" }, 1);
            let res = guarded(|| -> Result<(Vec<Fq>, Vec<Fq>, Fq), String> {
                let cs = new_cs(false);
                let _v: ElementVar = if via_affine {
                    let a: Af = l.into();
                    ElementVar::new_input(cs.clone(), || Ok(a)).map_err(|e| format!("{e:?}"))?
                } else {
                    ElementVar::new_input(cs.clone(), || Ok(l)).map_err(|e| format!("{e:?}"))?
                };
                let inst = cs.borrow().unwrap().instance_assignment.clone();
                Ok((inst, l.to_field_elements().unwrap(), l.vartime_compress_to_field()))
            });
            match res {
                Err(pn) => rec.violation(format!("{P}:public-input:panic"), pn, json!({"element": el_json(&e.l)})),
                Ok(Err(se)) => rec.violation(format!("{P}:public-input:synthesis-error"), se, json!({"element": el_json(&e.l)})),
                Ok(Ok((inst, tcf, enc_f))) => {
                    let want_model = fq(&ctx.c.encode_spec_fe(&e.m).unwrap());
                    if inst.len() != 2 || inst[0] != Fq::ONE || inst[1] != enc_f || tcf != vec![enc_f] || enc_f != want_model {
                        rec.violation(format!("{P}:public-input:instance-assignment"), format!("instance assignment {:?} / to_field_elements {:?} is not [1, encoding] = {} (allocated from {})", inst.iter().map(|x| hexs(&fqb(x))).collect::<Vec<_>>(), tcf.iter().map(|x| hexs(&fqb(x))).collect::<Vec<_>>(), hexs(&fqb(&want_model)), if via_affine { "AffinePoint" } else { "Element" }), json!({"element": el_json(&e.l), "class": e.class}));
                    }
                }
            }
            }
        }
    });

    // ---- (3) the seven pinned circuits: shapes across inputs / modes, keys, proofs
    let per = ctx.scale(10, 40);
    let instances = pinned_instances(ctx, &zoo, &mut zrng, per);
    let names = ["discrete_log", "compression", "decompression", "elligator", "public_element_input", "negation", "add_assign_add"];
    for nm in names {
        rec.declare_form(&format!("pinned: {nm}"));
    }
    let n_proofs = ctx.scale(8, 40);
    par(rec, |w, n, rec| {
        let mut rng = rng_for(ctx.seed, P, w, 3);
        for (ci, nm) in names.iter().enumerate() {
            if ci % n != w {
                continue;
            }
            let form = format!("pinned: {nm}");
            let mine: Vec<&(Pinned, String)> = instances.iter().filter(|(p, _)| p.name() == *nm).collect();
            // shapes
            let mut reference: Option<(Shape, String)> = None;
            for (pc, class) in &mine {
                for setup in [false, true] {
                    rec.form(&form);
                    rec.eval(&("pinned-shape", nm, class.clone(), setup), false);
                    let pc2 = (*pc).clone();
                    match guarded(|| shape_of_pinned(&pc2, setup)) {
                        Ok(Ok(sh)) => match &reference {
                            None => reference = Some((sh, class.clone())),
                            Some((r0, c0)) => {
                                rec.count("shape_comparisons", 1);
                                if r0 != &sh {
                                    rec.violation(format!("{P}:{form}:shape-depends-on-input"), format!("circuit {nm}: shape {sh:?} on `{class}`{} differs from {r0:?} on `{c0}`", if setup { " (setup)" } else { "" }), json!({}));
                                }
                            }
                        },
                        Ok(Err(e)) => rec.violation(format!("{P}:{form}:synthesis-error"), format!("circuit {nm} on `{class}`: {e}"), json!({})),
                        Err(pn) => rec.violation(format!("{P}:{form}:panic"), format!("circuit {nm} on `{class}`: {pn}"), json!({})),
                    }
                }
            }
            for (pc, class) in &mine {
                let pc2 = (*pc).clone();
                rec.eval(&("pinned-witness-only", nm, class.clone()), false);
                match guarded(|| witness_only_agrees(&|cs: &CS| pc2.clone().generate_constraints(cs.clone()).map_err(|e| format!("{e:?}")))) {
                    Ok(Ok(Some(()))) => rec.count("witness_only_mode_comparisons", 1),
                    Ok(Ok(None)) => {}
                    Ok(Err(why)) => rec.violation(format!("{P}:{form}:witness-only-mode-differs"), format!("circuit {nm} on `{class}`: {why}"), json!({})),
                    Err(pn) => rec.violation(format!("{P}:{form}:witness-only-mode-differs"), format!("circuit {nm} on `{class}`: panic {pn}"), json!({})),
                }
            }
            // the crate's own counting helper (CountConstraints) must report the same system
            if let (Some((r0, _)), Some((pc, class))) = (&reference, mine.first()) {
                use decaf377::r1cs::CountConstraints;
                let pc2 = (*pc).clone();
                rec.count("count_constraints_checks", 1);
                match guarded(move || pc2.num_constraints_and_instance_variables()) {
                    Ok((nc, ni)) => {
                        if nc != r0.ncons || ni != r0.ninst {
                            rec.violation(format!("{P}:{form}:count-constraints"), format!("CountConstraints reports ({nc} constraints, {ni} instance variables) for {nm} on `{class}`, synthesis gives ({}, {})", r0.ncons, r0.ninst), json!({}));
                        }
                    }
                    Err(pn) => rec.violation(format!("{P}:{form}:count-constraints-panic"), pn, json!({})),
                }
            }
            // pinned keys: validated deserialisation, query lengths against the matrices
            let (pk, vk) = match guarded(|| load_keys(nm)) {
                Ok(Ok(k)) => k,
                Ok(Err(e)) => {
                    rec.violation(format!("{P}:{form}:key-rejected"), format!("pinned key of {nm} fails validated deserialisation: {e}"), json!({}));
                    continue;
                }
                Err(pn) => {
                    rec.violation(format!("{P}:{form}:key-panic"), format!("loading the pinned key of {nm} panicked: {pn}"), json!({}));
                    continue;
                }
            };
            rec.count("pinned_keys_loaded", 1);
            if let Some((sh, _)) = &reference {
                let ok = pk.a_query.len() == sh.ninst + sh.nwit && pk.b_g1_query.len() == sh.ninst + sh.nwit && pk.b_g2_query.len() == sh.ninst + sh.nwit && pk.l_query.len() == sh.nwit && vk.gamma_abc_g1.len() == sh.ninst && pk.vk == vk;
                rec.evals += 1;
                if !ok {
                    rec.violation(format!("{P}:{form}:key-shape-mismatch"), format!("pinned key of {nm} does not fit the circuit: a_query {} b_g1 {} l_query {} gamma_abc {} vs instance {} witness {}", pk.a_query.len(), pk.b_g1_query.len(), pk.l_query.len(), vk.gamma_abc_g1.len(), sh.ninst, sh.nwit), json!({}));
                }
            }
            // proofs
            let pvk = match Groth16::<Bls12_377, LibsnarkReduction>::process_vk(&vk) {
                Ok(p) => p,
                Err(e) => {
                    rec.violation(format!("{P}:{form}:vk-unusable"), format!("{e:?}"), json!({}));
                    continue;
                }
            };
            for (k, (pc, class)) in mine.iter().enumerate().take(n_proofs) {
                rec.eval(&("proof", nm, class.clone(), k), false);
                let pc2 = (*pc).clone();
                let mut prng = rng_for(ctx.seed, "C15-proof", ci, k as u64);
                let proof = guarded(|| Groth16::<Bls12_377, LibsnarkReduction>::prove(&pk, pc2, &mut prng));
                let proof = match proof {
                    Ok(Ok(p)) => p,
                    Ok(Err(e)) => {
                        rec.violation(format!("{P}:{form}:prove-fails"), format!("honest witness `{class}` cannot be proved with the pinned key: {e:?}"), json!({}));
                        continue;
                    }
                    Err(pn) => {
                        rec.violation(format!("{P}:{form}:prove-panics"), format!("proving `{class}` panicked: {pn}"), json!({}));
                        continue;
                    }
                };
                rec.count("proofs", 1);
                let public = pc.public_inputs();
                match Groth16::<Bls12_377, LibsnarkReduction>::verify_with_processed_vk(&pvk, &public, &proof) {
                    Ok(true) => {}
                    other => rec.violation(format!("{P}:{form}:honest-proof-rejected"), format!("proof for honest witness `{class}` does not verify under the pinned verifying key ({other:?})"), json!({"public": public.iter().map(|x| hexs(&fqb(x))).collect::<Vec<_>>()})),
                }
                // wrong public inputs must be rejected
                let mut wrongs: Vec<Vec<Fq>> = Vec::new();
                for j in 0..public.len() {
                    let mut v = public.clone();
                    v[j] = v[j] + Fq::ONE;
                    wrongs.push(v);
                    let mut v = public.clone();
                    v[j] = -v[j];
                    if v != public {
                        wrongs.push(v);
                    }
                    let mut v = public.clone();
                    v[j] = fq(&rand_below(&mut rng, &ctx.c.f.p));
                    wrongs.push(v);
                    let mut v = public.clone();
                    v[j] = if public[j] == Fq::ZERO { fq(&b(8)) } else { Fq::ZERO };
                    wrongs.push(v);
                    let mut v = public.clone();
                    v[j] = (El::GENERATOR * Fr::from(600u64 + k as u64)).vartime_compress_to_field();
                    if v != public {
                        wrongs.push(v);
                    }
                }
                if public.len() == 2 && public[0] != public[1] {
                    wrongs.push(vec![public[1], public[0]]);
                }
                for wv in wrongs {
                    rec.count("wrong_public_inputs_tried", 1);
                    match Groth16::<Bls12_377, LibsnarkReduction>::verify_with_processed_vk(&pvk, &wv, &proof) {
                        Ok(false) | Err(_) => {}
                        Ok(true) => rec.violation(format!("{P}:{form}:accepts-wrong-public-input"), format!("a proof for `{class}` verifies for a different public input"), json!({"public": wv.iter().map(|x| hexs(&fqb(x))).collect::<Vec<_>>()})),
                    }
                }
                if k == 0 {
                    rec.sample(json!({"circuit": nm, "witness_class": class, "public_inputs": public.iter().map(|x| hexs(&fqb(x))).collect::<Vec<_>>(), "proof_verifies": true}));
                }
            }
        }
    });
    rec.check_coverage();
}
