//! C17 — dump every public constant (read through the public API, as canonical integers);
//! the recomputation from the moduli happens in lib/c17_check.py.
use crate::ad::*;
use crate::model::{from_limbs64, hexs, B};
use crate::mon::Rec;
use crate::sh::*;
use serde_json::{json, Map, Value};

fn h(v: &B) -> Value {
    json!(hexs(v))
}
fn limbs(l: &[u64]) -> Value {
    h(&from_limbs64(l))
}

macro_rules! inherent_consts {
    ($m:ident, $F:ty, $name:literal, $from:ident) => {
        $m.insert(concat!($name, "::MODULUS_LIMBS").into(), limbs(&<$F>::MODULUS_LIMBS));
        $m.insert(concat!($name, "::MODULUS_MINUS_ONE_DIV_TWO_LIMBS").into(), limbs(&<$F>::MODULUS_MINUS_ONE_DIV_TWO_LIMBS));
        $m.insert(concat!($name, "::MODULUS_BIT_SIZE").into(), json!(<$F>::MODULUS_BIT_SIZE));
        $m.insert(concat!($name, "::TRACE_LIMBS").into(), limbs(&<$F>::TRACE_LIMBS));
        $m.insert(concat!($name, "::TRACE_MINUS_ONE_DIV_TWO_LIMBS").into(), limbs(&<$F>::TRACE_MINUS_ONE_DIV_TWO_LIMBS));
        $m.insert(concat!($name, "::TWO_ADICITY").into(), json!(<$F>::TWO_ADICITY));
        $m.insert(concat!($name, "::MULTIPLICATIVE_GENERATOR").into(), h(&$from(&<$F>::MULTIPLICATIVE_GENERATOR)));
        $m.insert(concat!($name, "::TWO_ADIC_ROOT_OF_UNITY").into(), h(&$from(&<$F>::TWO_ADIC_ROOT_OF_UNITY)));
        $m.insert(concat!($name, "::FIELD_SIZE_POWER_OF_TWO").into(), h(&$from(&<$F>::FIELD_SIZE_POWER_OF_TWO)));
        $m.insert(concat!($name, "::ZERO").into(), h(&$from(&<$F>::ZERO)));
        $m.insert(concat!($name, "::ONE").into(), h(&$from(&<$F>::ONE)));
        $m.insert(concat!($name, "::default()").into(), h(&$from(&<$F>::default())));
    };
}

#[cfg(feature = "ark")]
mod arkc {
    use super::*;
    use ark_ec::bls12::{Bls12, Bls12Config, TwistType};
    use ark_ec::short_weierstrass::SWCurveConfig;
    use ark_ec::twisted_edwards::{MontCurveConfig, TECurveConfig};
    use ark_ec::{CurveConfig, CurveGroup};
    use ark_ff::{FftField, Field, Fp12Config, Fp2, Fp2Config, Fp6Config, PrimeField, SqrtPrecomputation};

    pub trait Unwrap {
        type P: Bls12Config;
    }
    impl<P: Bls12Config> Unwrap for Bls12<P> {
        type P = P;
    }
    type Cfg = <decaf377::Bls12_377 as Unwrap>::P;

    fn fp2<C: Fp2Config<Fp = Fp>>(x: &Fp2<C>) -> Value {
        json!([hexs(&fpb(&x.c0)), hexs(&fpb(&x.c1))])
    }

    macro_rules! trait_consts {
        ($m:ident, $F:ty, $name:literal, $from:ident) => {
            $m.insert(concat!($name, " PrimeField::MODULUS").into(), limbs(&<$F as PrimeField>::MODULUS.0));
            $m.insert(concat!($name, " PrimeField::MODULUS_MINUS_ONE_DIV_TWO").into(), limbs(&<$F as PrimeField>::MODULUS_MINUS_ONE_DIV_TWO.0));
            $m.insert(concat!($name, " PrimeField::MODULUS_BIT_SIZE").into(), json!(<$F as PrimeField>::MODULUS_BIT_SIZE));
            $m.insert(concat!($name, " PrimeField::TRACE").into(), limbs(&<$F as PrimeField>::TRACE.0));
            $m.insert(concat!($name, " PrimeField::TRACE_MINUS_ONE_DIV_TWO").into(), limbs(&<$F as PrimeField>::TRACE_MINUS_ONE_DIV_TWO.0));
            $m.insert(concat!($name, " FftField::GENERATOR").into(), h(&$from(&<$F as FftField>::GENERATOR)));
            $m.insert(concat!($name, " FftField::TWO_ADICITY").into(), json!(<$F as FftField>::TWO_ADICITY));
            $m.insert(concat!($name, " FftField::TWO_ADIC_ROOT_OF_UNITY").into(), h(&$from(&<$F as FftField>::TWO_ADIC_ROOT_OF_UNITY)));
            $m.insert(concat!($name, " FftField::SMALL_SUBGROUP_BASE").into(), json!(<$F as FftField>::SMALL_SUBGROUP_BASE));
            $m.insert(concat!($name, " FftField::SMALL_SUBGROUP_BASE_ADICITY").into(), json!(<$F as FftField>::SMALL_SUBGROUP_BASE_ADICITY));
            $m.insert(concat!($name, " FftField::LARGE_SUBGROUP_ROOT_OF_UNITY").into(), json!(<$F as FftField>::LARGE_SUBGROUP_ROOT_OF_UNITY.map(|x| hexs(&$from(&x)))));
            // what the *type path* resolves to (an inherent constant of the same name would shadow the trait's):
            // it must be the same value as the trait constant
            $m.insert(concat!($name, " type-path GENERATOR == FftField::GENERATOR").into(), json!(format!("{:?}", <$F>::GENERATOR) == format!("{:?}", <$F as FftField>::GENERATOR)));
            $m.insert(concat!($name, " type-path MODULUS == PrimeField::MODULUS").into(), json!(format!("{:?}", <$F>::MODULUS) == format!("{:?}", <$F as PrimeField>::MODULUS)));
            $m.insert(concat!($name, " type-path MODULUS_MINUS_ONE_DIV_TWO == PrimeField::MODULUS_MINUS_ONE_DIV_TWO").into(), json!(format!("{:?}", <$F>::MODULUS_MINUS_ONE_DIV_TWO) == format!("{:?}", <$F as PrimeField>::MODULUS_MINUS_ONE_DIV_TWO)));
            $m.insert(concat!($name, " type-path TRACE == PrimeField::TRACE").into(), json!(format!("{:?}", <$F>::TRACE) == format!("{:?}", <$F as PrimeField>::TRACE)));
            $m.insert(concat!($name, " type-path TRACE_MINUS_ONE_DIV_TWO == PrimeField::TRACE_MINUS_ONE_DIV_TWO").into(), json!(format!("{:?}", <$F>::TRACE_MINUS_ONE_DIV_TWO) == format!("{:?}", <$F as PrimeField>::TRACE_MINUS_ONE_DIV_TWO)));
            $m.insert(concat!($name, " type-path SQRT_PRECOMP == Field::SQRT_PRECOMP").into(), json!(format!("{:?}", <$F>::SQRT_PRECOMP.is_some()) == format!("{:?}", <$F as Field>::SQRT_PRECOMP.is_some())));
            $m.insert(concat!($name, " type-path SMALL_SUBGROUP_BASE == FftField::SMALL_SUBGROUP_BASE").into(), json!(format!("{:?}", <$F>::SMALL_SUBGROUP_BASE) == format!("{:?}", <$F as FftField>::SMALL_SUBGROUP_BASE)));
            $m.insert(concat!($name, " Field::ZERO").into(), h(&$from(&<$F as Field>::ZERO)));
            $m.insert(concat!($name, " Field::ONE").into(), h(&$from(&<$F as Field>::ONE)));
            $m.insert(concat!($name, " Field::characteristic()").into(), limbs(<$F as Field>::characteristic()));
            $m.insert(concat!($name, " Field::extension_degree()").into(), json!(<$F as Field>::extension_degree()));
            let sp = match <$F as Field>::SQRT_PRECOMP {
                Some(SqrtPrecomputation::TonelliShanks { two_adicity, quadratic_nonresidue_to_trace, trace_of_modulus_minus_one_div_two }) => json!({
                    "kind": "TonelliShanks", "two_adicity": two_adicity,
                    "quadratic_nonresidue_to_trace": hexs(&$from(&quadratic_nonresidue_to_trace)),
                    "trace_of_modulus_minus_one_div_two": hexs(&from_limbs64(trace_of_modulus_minus_one_div_two))}),
                Some(SqrtPrecomputation::Case3Mod4 { modulus_plus_one_div_four }) => json!({
                    "kind": "Case3Mod4", "modulus_plus_one_div_four": hexs(&from_limbs64(modulus_plus_one_div_four))}),
                None => json!({"kind": "None"}),
                #[allow(unreachable_patterns)]
                Some(_) => json!({"kind": "unknown"}),
            };
            $m.insert(concat!($name, " Field::SQRT_PRECOMP").into(), sp);
        };
    }

    pub fn dump(m: &mut Map<String, Value>) {
        trait_consts!(m, Fq, "Fq", fqb);
        trait_consts!(m, Fr, "Fr", frb);
        trait_consts!(m, Fp, "Fp", fpb);
        type EC = <El as CurveGroup>::Config;
        m.insert("decaf CurveConfig::COFACTOR".into(), limbs(<EC as CurveConfig>::COFACTOR));
        m.insert("decaf CurveConfig::COFACTOR_INV".into(), h(&frb(&<EC as CurveConfig>::COFACTOR_INV)));
        m.insert("decaf TECurveConfig::COEFF_A".into(), h(&fqb(&<EC as TECurveConfig>::COEFF_A)));
        m.insert("decaf TECurveConfig::COEFF_D".into(), h(&fqb(&<EC as TECurveConfig>::COEFF_D)));
        let g = <EC as TECurveConfig>::GENERATOR;
        m.insert("decaf TECurveConfig::GENERATOR".into(), json!([hexs(&fqb(&g.x)), hexs(&fqb(&g.y))]));
        m.insert("decaf MontCurveConfig::COEFF_A".into(), h(&fqb(&<EC as MontCurveConfig>::COEFF_A)));
        m.insert("decaf MontCurveConfig::COEFF_B".into(), h(&fqb(&<EC as MontCurveConfig>::COEFF_B)));
        m.insert("decaf TECurveConfig::mul_by_a(5)".into(), h(&fqb(&<EC as TECurveConfig>::mul_by_a(fq(&B::from(5u8))))));
        // BLS12-377 engine
        m.insert("bls Bls12Config::X".into(), limbs(<Cfg as Bls12Config>::X));
        m.insert("bls Bls12Config::X_IS_NEGATIVE".into(), json!(<Cfg as Bls12Config>::X_IS_NEGATIVE));
        m.insert("bls Bls12Config::TWIST_TYPE".into(), json!(match <Cfg as Bls12Config>::TWIST_TYPE { TwistType::D => "D", TwistType::M => "M" }));
        type F2 = <Cfg as Bls12Config>::Fp2Config;
        type F6 = <Cfg as Bls12Config>::Fp6Config;
        type F12 = <Cfg as Bls12Config>::Fp12Config;
        type G1 = <Cfg as Bls12Config>::G1Config;
        type G2 = <Cfg as Bls12Config>::G2Config;
        m.insert("bls Fp2Config::NONRESIDUE".into(), h(&fpb(&<F2 as Fp2Config>::NONRESIDUE)));
        m.insert("bls Fp2Config::FROBENIUS_COEFF_FP2_C1".into(), json!(<F2 as Fp2Config>::FROBENIUS_COEFF_FP2_C1.iter().map(|x| hexs(&fpb(x))).collect::<Vec<_>>()));
        m.insert("bls Fp6Config::NONRESIDUE".into(), fp2(&<F6 as Fp6Config>::NONRESIDUE));
        m.insert("bls Fp6Config::FROBENIUS_COEFF_FP6_C1".into(), json!(<F6 as Fp6Config>::FROBENIUS_COEFF_FP6_C1.iter().map(fp2).collect::<Vec<_>>()));
        m.insert("bls Fp6Config::FROBENIUS_COEFF_FP6_C2".into(), json!(<F6 as Fp6Config>::FROBENIUS_COEFF_FP6_C2.iter().map(fp2).collect::<Vec<_>>()));
        let nr12 = <F12 as Fp12Config>::NONRESIDUE;
        m.insert("bls Fp12Config::NONRESIDUE".into(), json!([fp2(&nr12.c0), fp2(&nr12.c1), fp2(&nr12.c2)]));
        m.insert("bls Fp12Config::FROBENIUS_COEFF_FP12_C1".into(), json!(<F12 as Fp12Config>::FROBENIUS_COEFF_FP12_C1.iter().map(fp2).collect::<Vec<_>>()));
        m.insert("bls G1 CurveConfig::COFACTOR".into(), limbs(<G1 as CurveConfig>::COFACTOR));
        m.insert("bls G1 CurveConfig::COFACTOR_INV".into(), h(&fqb(&<G1 as CurveConfig>::COFACTOR_INV)));
        m.insert("bls G1 SWCurveConfig::COEFF_A".into(), h(&fpb(&<G1 as SWCurveConfig>::COEFF_A)));
        m.insert("bls G1 SWCurveConfig::COEFF_B".into(), h(&fpb(&<G1 as SWCurveConfig>::COEFF_B)));
        let g1 = <G1 as SWCurveConfig>::GENERATOR;
        m.insert("bls G1 SWCurveConfig::GENERATOR".into(), json!([hexs(&fpb(&g1.x)), hexs(&fpb(&g1.y)), g1.infinity]));
        m.insert("bls G2 CurveConfig::COFACTOR".into(), limbs(<G2 as CurveConfig>::COFACTOR));
        m.insert("bls G2 CurveConfig::COFACTOR_INV".into(), h(&fqb(&<G2 as CurveConfig>::COFACTOR_INV)));
        m.insert("bls G2 SWCurveConfig::COEFF_A".into(), fp2(&<G2 as SWCurveConfig>::COEFF_A));
        m.insert("bls G2 SWCurveConfig::COEFF_B".into(), fp2(&<G2 as SWCurveConfig>::COEFF_B));
        let g2 = <G2 as SWCurveConfig>::GENERATOR;
        m.insert("bls G2 SWCurveConfig::GENERATOR".into(), json!([fp2(&g2.x), fp2(&g2.y), g2.infinity]));
    }
}

pub fn run(ctx: &Ctx, rec: &mut Rec) -> Value {
    let mut m: Map<String, Value> = Map::new();
    inherent_consts!(m, Fq, "Fq", fqb);
    inherent_consts!(m, Fr, "Fr", frb);
    inherent_consts!(m, Fp, "Fp", fpb);
    m.insert("Fq::QUADRATIC_NON_RESIDUE_TO_TRACE".into(), h(&fqb(&Fq::QUADRATIC_NON_RESIDUE_TO_TRACE)));
    m.insert("Fp::QUADRATIC_NON_RESIDUE_TO_TRACE".into(), h(&fpb(&Fp::QUADRATIC_NON_RESIDUE_TO_TRACE)));
    m.insert("Fp::QUADRATIC_NON_RESIDUE".into(), h(&fpb(&Fp::QUADRATIC_NON_RESIDUE)));
    m.insert("Fp::MINUS_ONE".into(), h(&fpb(&Fp::MINUS_ONE)));
    m.insert("decaf377::ZETA".into(), h(&fqb(&decaf377::ZETA)));
    // the constants *as operands*: a literal that is not the reduced internal form of its value (but prints and
    // compares right) shows when the constant object itself goes through negation, subtraction, doubling,
    // squaring, constant-time equality
    macro_rules! as_operand {
        ($m:ident, $name:literal, $konst:expr, $F:ty, $fld:expr, $from:ident, $to:ident) => {{
            let k: $F = $konst;
            let f = $fld;
            let v = $from(&k);
            let rebuilt: $F = $to(&v);
            let mut bad: Vec<&'static str> = Vec::new();
            if $from(&(-k)) != f.neg(&v) { bad.push("-C"); }
            if $from(&(<$F>::ZERO - k)) != f.neg(&v) { bad.push("0 - C"); }
            if $from(&(k + k)) != f.add(&v, &v) { bad.push("C + C"); }
            if $from(&(k * k)) != f.sq(&v) { bad.push("C * C"); }
            if $from(&(k - rebuilt)) != crate::model::b(0) { bad.push("C - rebuilt"); }
            if $from(&(rebuilt - k)) != crate::model::b(0) { bad.push("rebuilt - C"); }
            if !(k == rebuilt) || !(rebuilt == k) { bad.push("C == rebuilt"); }
            if $from(&k.square()) != f.sq(&v) { bad.push("C.square()"); }
            if let Some(i) = k.inverse() { if $from(&(i * k)) != crate::model::b(1) { bad.push("C^-1 * C"); } } else if v != crate::model::b(0) { bad.push("inverse is None"); }
            if k.to_bytes_le() != rebuilt.to_bytes_le() { bad.push("bytes"); }
            $m.insert(concat!($name, " as an operand").into(), json!(bad));
        }};
    }
    {
        let (fq_, fr_, fp_) = (&ctx.c.f, &ctx.fr, &ctx.fp);
        as_operand!(m, "decaf377::ZETA", decaf377::ZETA, Fq, fq_, fqb, fq);
        as_operand!(m, "Fq::ONE", Fq::ONE, Fq, fq_, fqb, fq);
        as_operand!(m, "Fq::ZERO", Fq::ZERO, Fq, fq_, fqb, fq);
        as_operand!(m, "Fq::MULTIPLICATIVE_GENERATOR", Fq::MULTIPLICATIVE_GENERATOR, Fq, fq_, fqb, fq);
        as_operand!(m, "Fq::TWO_ADIC_ROOT_OF_UNITY", Fq::TWO_ADIC_ROOT_OF_UNITY, Fq, fq_, fqb, fq);
        as_operand!(m, "Fq::FIELD_SIZE_POWER_OF_TWO", Fq::FIELD_SIZE_POWER_OF_TWO, Fq, fq_, fqb, fq);
        as_operand!(m, "Fq::QUADRATIC_NON_RESIDUE_TO_TRACE", Fq::QUADRATIC_NON_RESIDUE_TO_TRACE, Fq, fq_, fqb, fq);
        as_operand!(m, "Fr::ONE", Fr::ONE, Fr, fr_, frb, fr);
        as_operand!(m, "Fr::MULTIPLICATIVE_GENERATOR", Fr::MULTIPLICATIVE_GENERATOR, Fr, fr_, frb, fr);
        as_operand!(m, "Fr::TWO_ADIC_ROOT_OF_UNITY", Fr::TWO_ADIC_ROOT_OF_UNITY, Fr, fr_, frb, fr);
        as_operand!(m, "Fr::FIELD_SIZE_POWER_OF_TWO", Fr::FIELD_SIZE_POWER_OF_TWO, Fr, fr_, frb, fr);
        as_operand!(m, "Fp::ONE", Fp::ONE, Fp, fp_, fpb, fp);
        as_operand!(m, "Fp::MINUS_ONE", Fp::MINUS_ONE, Fp, fp_, fpb, fp);
        as_operand!(m, "Fp::MULTIPLICATIVE_GENERATOR", Fp::MULTIPLICATIVE_GENERATOR, Fp, fp_, fpb, fp);
        as_operand!(m, "Fp::TWO_ADIC_ROOT_OF_UNITY", Fp::TWO_ADIC_ROOT_OF_UNITY, Fp, fp_, fpb, fp);
        as_operand!(m, "Fp::FIELD_SIZE_POWER_OF_TWO", Fp::FIELD_SIZE_POWER_OF_TWO, Fp, fp_, fpb, fp);
        as_operand!(m, "Fp::QUADRATIC_NON_RESIDUE", Fp::QUADRATIC_NON_RESIDUE, Fp, fp_, fpb, fp);
        as_operand!(m, "Fp::QUADRATIC_NON_RESIDUE_TO_TRACE", Fp::QUADRATIC_NON_RESIDUE_TO_TRACE, Fp, fp_, fpb, fp);
        // the generator constant as an operand of the group law
        let g = El::GENERATOR;
        let mut bad: Vec<&'static str> = Vec::new();
        let gm = &ctx.g;
        if denotes(&ctx.c, &(g + g), &ctx.c.double(gm)).is_err() { bad.push("G + G"); }
        if denotes(&ctx.c, &(-g), &ctx.c.neg(gm)).is_err() { bad.push("-G"); }
        if !(g - g).is_identity() { bad.push("G - G"); }
        if denotes(&ctx.c, &(g + El::IDENTITY), gm).is_err() { bad.push("G + IDENTITY"); }
        if denotes(&ctx.c, &(El::IDENTITY + El::IDENTITY), &ctx.c.identity()).is_err() { bad.push("IDENTITY + IDENTITY"); }
        m.insert("Element::GENERATOR / IDENTITY as operands".into(), json!(bad));
    }
    let (x, y, z, t) = coords(&El::GENERATOR);
    m.insert("Element::GENERATOR (X,Y,Z,T)".into(), json!([hexs(&x), hexs(&y), hexs(&z), hexs(&t)]));
    m.insert("Element::GENERATOR encoding".into(), json!(hex::encode(enc(&El::GENERATOR))));
    let (x, y, z, t) = coords(&El::IDENTITY);
    m.insert("Element::IDENTITY (X,Y,Z,T)".into(), json!([hexs(&x), hexs(&y), hexs(&z), hexs(&t)]));
    #[cfg(feature = "ark")]
    arkc::dump(&mut m);
    rec.evals = m.len() as u64;
    for k in m.keys() {
        rec.distinct.insert(crate::mon::h64(k));
    }
    // values the python checker needs from the (self-tested) model
    let model = json!({
        "q": hexs(&ctx.c.f.p), "r": hexs(&ctx.c.r), "p": hexs(&ctx.fp.p),
        "generator_from_decodeSpec(8)": [hexs(&ctx.g.x), hexs(&ctx.g.y)],
        "zeta_sage": hexs(&ctx.c.zeta),
    });
    json!({"constants": Value::Object(m), "model": model})
}
