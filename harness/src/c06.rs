//! C06 — every public constructor yields a valid group element.
use crate::ad::*;
use crate::c04::run_program;
use crate::model::{b, hexs};
use crate::mon::{guarded, hx, par, rng_for, Rec};
use crate::sh::*;
use crate::zoo::{rand_below, rand_bytes, rand_range};
use rand_core::RngCore;
use serde_json::json;

const P: &str = "C06";

/// The validity oracle: (library) its encoding decodes to an element equal to it;
/// (model) the value is structurally sound, on the curve and in 2E, i.e. r*P is an identity
/// representative.
pub fn validate(ctx: &Ctx, rec: &mut Rec, ctor: &str, e: &El, input: serde_json::Value, check_2e: bool) -> bool {
    let c = &ctx.c;
    rec.form(ctor);
    let e2 = *e;
    let lib = guarded(|| {
        let bytes = enc(&e2);
        let d = dec(&bytes);
        (bytes, d.map(|d| d == e2))
    });
    let mut ok = true;
    match lib {
        Err(pn) => {
            rec.violation(format!("{P}:{ctor}:panic"), format!("encoding/decoding the output of {ctor} panicked: {pn}"), json!({"input": input, "output": el_json(e)}));
            ok = false;
        }
        Ok((bytes, Err(_))) => {
            rec.violation(format!("{P}:{ctor}:encoding-does-not-decode"), format!("{ctor} returned a value whose encoding {} does not decode", hx(&bytes)), json!({"input": input, "output": el_json(e)}));
            ok = false;
        }
        Ok((bytes, Ok(false))) => {
            rec.violation(format!("{P}:{ctor}:roundtrip-not-equal"), format!("{ctor} returned a value whose encoding {} decodes to a different element", hx(&bytes)), json!({"input": input, "output": el_json(e)}));
            ok = false;
        }
        Ok((_, Ok(true))) => {}
    }
    match affine_of(c, e) {
        Err(why) => {
            rec.violation(format!("{P}:{ctor}:structurally-invalid"), format!("{ctor} returned a structurally invalid value: {why}"), json!({"input": input, "output": el_json(e)}));
            ok = false;
        }
        Ok(p) => {
            if check_2e {
                rec.count("in_2E_checks", 1);
                if !c.in_2e(&p) {
                    rec.violation(format!("{P}:{ctor}:outside-group"), format!("{ctor} returned a curve point outside the group: r*P is not an identity representative"), json!({"input": input, "output": el_json(e), "x": hexs(&p.x), "y": hexs(&p.y)}));
                    ok = false;
                }
            }
        }
    }
    ok
}

/// RNG wrapper that panics once more than `budget` bytes were drawn (a sampler that
/// never terminates on a degenerate stream must not hang the monitor).
pub struct Budget<R: RngCore> {
    pub inner: R,
    pub left: usize,
}
impl<R: RngCore> RngCore for Budget<R> {
    fn next_u32(&mut self) -> u32 {
        let mut b4 = [0u8; 4];
        self.fill_bytes(&mut b4);
        u32::from_le_bytes(b4)
    }
    fn next_u64(&mut self) -> u64 {
        let mut b8 = [0u8; 8];
        self.fill_bytes(&mut b8);
        u64::from_le_bytes(b8)
    }
    fn fill_bytes(&mut self, dest: &mut [u8]) {
        if dest.len() > self.left {
            panic!("RNG-BUDGET-EXHAUSTED");
        }
        self.left -= dest.len();
        self.inner.fill_bytes(dest)
    }
    fn try_fill_bytes(&mut self, dest: &mut [u8]) -> Result<(), rand_core::Error> {
        self.fill_bytes(dest);
        Ok(())
    }
}
/// a degenerate stream for the first `stuck` bytes, then a good one: samplers that give up, fall back
/// or switch strategy after many rejected candidates are only reachable this way
pub struct StuckThenRelease<A: RngCore, B2: RngCore> {
    pub bad: A,
    pub good: B2,
    pub stuck: usize,
}
impl<A: RngCore, B2: RngCore> RngCore for StuckThenRelease<A, B2> {
    fn next_u32(&mut self) -> u32 {
        let mut b4 = [0u8; 4];
        self.fill_bytes(&mut b4);
        u32::from_le_bytes(b4)
    }
    fn next_u64(&mut self) -> u64 {
        let mut b8 = [0u8; 8];
        self.fill_bytes(&mut b8);
        u64::from_le_bytes(b8)
    }
    fn fill_bytes(&mut self, dest: &mut [u8]) {
        if self.stuck >= dest.len() {
            self.stuck -= dest.len();
            self.bad.fill_bytes(dest)
        } else {
            self.stuck = 0;
            self.good.fill_bytes(dest)
        }
    }
    fn try_fill_bytes(&mut self, dest: &mut [u8]) -> Result<(), rand_core::Error> {
        self.fill_bytes(dest);
        Ok(())
    }
}
/// hands the inner stream out byte by byte whatever the request size (so that a prefix is consumed exactly)
pub struct ByteWise<R: RngCore>(pub R);
impl<R: RngCore> RngCore for ByteWise<R> {
    fn next_u32(&mut self) -> u32 {
        let mut b4 = [0u8; 4];
        self.fill_bytes(&mut b4);
        u32::from_le_bytes(b4)
    }
    fn next_u64(&mut self) -> u64 {
        let mut b8 = [0u8; 8];
        self.fill_bytes(&mut b8);
        u64::from_le_bytes(b8)
    }
    fn fill_bytes(&mut self, dest: &mut [u8]) {
        for d in dest.iter_mut() {
            let mut one = [0u8; 1];
            self.0.fill_bytes(&mut one);
            *d = one[0];
        }
    }
    fn try_fill_bytes(&mut self, dest: &mut [u8]) -> Result<(), rand_core::Error> {
        self.fill_bytes(dest);
        Ok(())
    }
}
/// degenerate streams
pub struct PatternRng {
    pub pat: Vec<u8>,
    pub pos: usize,
    pub counter: bool,
    pub ctr: u64,
}
impl RngCore for PatternRng {
    fn next_u32(&mut self) -> u32 {
        let mut b4 = [0u8; 4];
        self.fill_bytes(&mut b4);
        u32::from_le_bytes(b4)
    }
    fn next_u64(&mut self) -> u64 {
        let mut b8 = [0u8; 8];
        self.fill_bytes(&mut b8);
        u64::from_le_bytes(b8)
    }
    fn fill_bytes(&mut self, dest: &mut [u8]) {
        if self.counter {
            for chunk in dest.chunks_mut(8) {
                let v = self.ctr.to_le_bytes();
                self.ctr = self.ctr.wrapping_add(1);
                chunk.copy_from_slice(&v[..chunk.len()]);
            }
        } else {
            for d in dest.iter_mut() {
                *d = self.pat[self.pos % self.pat.len()];
                self.pos += 1;
            }
        }
    }
    fn try_fill_bytes(&mut self, dest: &mut [u8]) -> Result<(), rand_core::Error> {
        self.fill_bytes(dest);
        Ok(())
    }
}

#[cfg(feature = "ark")]
fn ark_part(ctx: &Ctx, rec: &mut Rec, zoo: &[SE]) {
    use ark_ec::{AffineRepr, CurveGroup, Group, ScalarMul};
    use ark_ff::{UniformRand, Zero};
    use ark_serialize::CanonicalDeserialize;
    use ark_std::rand::distributions::{Distribution, Standard};
    type Af = <El as CurveGroup>::Affine;
    let c = &ctx.c;

    // constants and nullary constructors
    let nullary: Vec<(&'static str, fn() -> El)> = vec![
        ("Element::GENERATOR", || El::GENERATOR),
        ("Element::IDENTITY", || El::IDENTITY),
        ("Element::default()", El::default),
        ("Zero::zero()", <El as Zero>::zero),
        ("Group::generator()", <El as Group>::generator),
        ("AffineRepr::zero()", || <Af as AffineRepr>::zero().into()),
        ("AffineRepr::generator()", || <Af as AffineRepr>::generator().into()),
        ("AffinePoint::default()", || Af::default().into()),
    ];
    for (name, f) in nullary {
        rec.eval(&(name,), false);
        match guarded(f) {
            Ok(e) => {
                validate(ctx, rec, name, &e, json!({}), true);
                let want = if name.contains("enerator") || name.contains("GENERATOR") { ctx.g.clone() } else { c.identity() };
                if let Err(why) = denotes(c, &e, &want) {
                    rec.violation(format!("{P}:{name}:wrong-constant"), why, json!({"output": el_json(&e)}));
                }
            }
            Err(pn) => rec.violation(format!("{P}:{name}:panic"), pn, json!({})),
        }
    }

    // from_random_bytes over the byte-string zoo and random strings
    let mut srng = rng_for(ctx.seed, P, 999, 1);
    let mut strings: Vec<(Vec<u8>, &'static str)> = crate::zoo::bytes_zoo(&c.f, &mut srng, 50);
    // y coordinates for which an intermediate of "build the point and test it" is a structured value, with
    // both values of the sign bit arkworks reads from the top of the last byte
    for y in crate::eng::y_for_intermediates(ctx) {
        let bytes = crate::model::to_le(&y, 32);
        strings.push((bytes.clone(), "engineered-intermediate"));
        let mut flagged = bytes;
        flagged[31] |= 0x80;
        strings.push((flagged, "engineered-intermediate"));
    }
    for len in [31usize, 32, 33, 48, 64] {
        for _ in 0..ctx.scale(20_000, 400_000) {
            strings.push((rand_bytes(&mut srng, len), "random"));
        }
    }
    // encodings (arkworks-style y|sign and decaf-style) of valid points, to hit accepted inputs
    for e in zoo.iter().take(60) {
        strings.push((c.encode_spec(&e.m).unwrap().to_vec(), "decaf-encoding"));
        let mut v = crate::model::to_le(&e.m.y, 32);
        strings.push((v.clone(), "ark-y-encoding"));
        v[31] |= 0x80;
        strings.push((v, "ark-y-encoding"));
    }
    for cl in ["random", "length", "canonical", "decaf-encoding", "ark-y-encoding"] {
        rec.declare_class(&format!("from_random_bytes:{cl}"));
    }
    rec.declare_form("AffineRepr::from_random_bytes");
    par(rec, |w, n, rec| {
        for (i, (s, class)) in strings.iter().enumerate() {
            if i % n != w {
                continue;
            }
            rec.class(&format!("from_random_bytes:{class}"));
            rec.eval(&("from_random_bytes", s.clone()), false);
            let s2 = s.clone();
            match guarded(|| <Af as AffineRepr>::from_random_bytes(&s2)) {
                Err(pn) => rec.violation(format!("{P}:AffineRepr::from_random_bytes:panic"), pn, json!({"bytes": hx(s)})),
                Ok(None) => rec.count("from_random_bytes_none", 1),
                Ok(Some(a)) => {
                    rec.count("from_random_bytes_some", 1);
                    let e: El = a.into();
                    validate(ctx, rec, "AffineRepr::from_random_bytes", &e, json!({"bytes": hx(s), "class": class}), true);
                    if i < 400 {
                        rec.sample(json!({"ctor": "from_random_bytes", "bytes": hx(s), "output_encoding": hx(&enc(&e))}));
                    }
                }
            }
        }
    });

    // samplers under many RNG streams
    rec.declare_form("Distribution<Element>::sample");
    rec.declare_form("Distribution<AffinePoint>::sample");
    rec.declare_form("UniformRand::rand (Element)");
    for cl in ["chacha", "all-zero", "all-ones", "counter", "short-period", "stuck-then-release"] {
        rec.declare_class(&format!("rng:{cl}"));
    }
    par(rec, |w, n, rec| {
        let mut rng = rng_for(ctx.seed, P, w, 2);
        let reps = ctx.scale(10_000, 200_000);
        for rep in 0..reps {
            if rep % n != w {
                continue;
            }
            let kind = if rep % 50 < 40 { "chacha" } else if rep % 50 < 46 { "stuck-then-release" } else { ["all-zero", "all-ones", "counter", "short-period"][rep % 4] };
            rec.class(&format!("rng:{kind}"));
            let seed = rng.next_u64();
            let mk = || -> Box<dyn RngCore> {
                match kind {
                    "chacha" => Box::new(rng_for(seed, "sampler", 0, 0)),
                    "all-zero" => Box::new(PatternRng { pat: vec![0], pos: 0, counter: false, ctr: 0 }),
                    "all-ones" => Box::new(PatternRng { pat: vec![0xff], pos: 0, counter: false, ctr: 0 }),
                    "counter" => Box::new(PatternRng { pat: vec![], pos: 0, counter: true, ctr: seed }),
                    "stuck-then-release" => {
                        // a pattern that is (almost always) rejected, for 0..48 KiB, then ChaCha
                        let pat: Vec<u8> = match seed % 4 {
                            0 => vec![0],
                            1 => vec![0xff],
                            2 => vec![(seed >> 8) as u8, 0, 0, 0, 0, 0, 0, 0],
                            _ => seed.to_le_bytes()[..7].to_vec(),
                        };
                        let stuck = ((seed >> 16) % 49152) as usize;
                        Box::new(StuckThenRelease { bad: PatternRng { pat, pos: 0, counter: false, ctr: 0 }, good: rng_for(seed, "sampler", 1, 0), stuck })
                    }
                    _ => Box::new(PatternRng { pat: seed.to_le_bytes()[..7].to_vec(), pos: 0, counter: false, ctr: 0 }),
                }
            };
            let which = rep % 3;
            let name = ["Distribution<Element>::sample", "Distribution<AffinePoint>::sample", "UniformRand::rand (Element)"][which];
            rec.eval(&(name, kind, seed), false);
            let res = guarded(|| {
                let mut br = Budget { inner: mk(), left: if kind == "stuck-then-release" { 1 << 18 } else { 1 << 16 } };
                match which {
                    0 => Distribution::<El>::sample(&Standard, &mut br),
                    1 => Distribution::<Af>::sample(&Standard, &mut br).into(),
                    _ => <El as UniformRand>::rand(&mut br),
                }
            });
            match res {
                Err(pn) if pn.contains("RNG-BUDGET-EXHAUSTED") => rec.count("sampler_no_output_within_64KiB", 1),
                Err(pn) => rec.violation(format!("{P}:{name}:panic"), pn, json!({"rng": kind, "seed": seed})),
                Ok(e) => {
                    validate(ctx, rec, name, &e, json!({"rng": kind, "seed": seed}), rep % 4 == 0);
                }
            }
        }
    });

    // RNG streams that spell a chosen field element: the first bytes of the stream are a structured Fq value
    // (every member of the field zoo: roots of unity, square roots of -1, modulus neighbours, ...) as canonical
    // little-endian bytes, as the bytes of its internal form, as a 48- and a 64-byte wide integer and after one
    // rejected all-ones draw; ChaCha afterwards. A sampler that builds its candidate from a drawn coordinate
    // or encoding meets the exceptional values of that construction only this way.
    rec.declare_class("rng:spells-a-field-value");
    {
        let f = &c.f;
        let fz = crate::zoo::field_zoo(f);
        let r = (b(1) << 256usize) % &f.p;
        par(rec, |w, n, rec| {
            for (zi, (v, vclass)) in fz.iter().enumerate() {
                if zi % n != w {
                    continue;
                }
                let mut prefixes: Vec<Vec<u8>> = Vec::new();
                prefixes.push(crate::model::to_le(v, 32));
                prefixes.push(crate::model::to_le(&f.mul(v, &r), 32));
                prefixes.push(crate::model::to_le(v, 48));
                prefixes.push(crate::model::to_le(v, 64));
                let mut rejected_first = vec![0xffu8; 32];
                rejected_first.extend(crate::model::to_le(v, 32));
                prefixes.push(rejected_first);
                let mut be = crate::model::to_le(v, 32);
                be.reverse();
                prefixes.push(be);
                for (pi, pre) in prefixes.iter().enumerate() {
                    for which in 0..3usize {
                        let name = ["Distribution<Element>::sample", "Distribution<AffinePoint>::sample", "UniformRand::rand (Element)"][which];
                        rec.class("rng:spells-a-field-value");
                        rec.form(name);
                        rec.eval(&(name, "spell", v.to_bytes_le(), pi), false);
                        let pre2 = pre.clone();
                        let seed = (zi * 16 + pi) as u64;
                        let res = guarded(|| {
                            let n0 = pre2.len();
                            let inner = StuckThenRelease { bad: PatternRng { pat: pre2, pos: 0, counter: false, ctr: 0 }, good: rng_for(seed, "sampler", 2, 0), stuck: n0 };
                            let mut br = Budget { inner: ByteWise(inner), left: 1 << 16 };
                            match which {
                                0 => Distribution::<El>::sample(&Standard, &mut br),
                                1 => Distribution::<Af>::sample(&Standard, &mut br).into(),
                                _ => <El as UniformRand>::rand(&mut br),
                            }
                        });
                        match res {
                            Err(pn) if pn.contains("RNG-BUDGET-EXHAUSTED") => rec.count("sampler_no_output_within_64KiB", 1),
                            Err(pn) => rec.violation(format!("{P}:{name}:panic"), format!("{pn} (RNG stream starting with the {} bytes {} spelling the field value {} [{vclass}])", pre.len(), hx(pre), hexs(v)), json!({"rng": "spells-a-field-value", "prefix": hx(pre)})),
                            Ok(e) => { validate(ctx, rec, name, &e, json!({"rng": "spells-a-field-value", "value": hexs(v), "value_class": vclass, "prefix": hx(pre)}), zi % 8 == 0); }
                        }
                    }
                }
            }
        });
    }

    // every deserialisation mode (Compress x Validate) of Element / AffinePoint on hostile strings,
    // including crafted on-curve points outside the group in arkworks' own point formats. Modes
    // that are `unimplemented!()` hand out nothing (counted, not judged); whatever *is* handed
    // out must be a valid element.
    {
        use ark_serialize::{Compress, Validate};
        let f = &c.f;
        let i4 = f.sqrt(&f.neg(&b(1))).expect("q = 1 mod 4");
        let t4 = crate::model::Pt { x: i4, y: b(0) };
        let mut hostile: Vec<(Vec<u8>, &'static str)> = Vec::new();
        let te_formats = |p: &crate::model::Pt, class: &'static str, out: &mut Vec<(Vec<u8>, &'static str)>| {
            // arkworks twisted-Edwards formats: compressed = y with the sign of x in the top bit,
            // uncompressed = x || y
            let mut y = crate::model::to_le(&p.y, 32);
            let mut unc = crate::model::to_le(&p.x, 32);
            unc.extend_from_slice(&y);
            out.push((unc, class));
            let neg_x = &p.x > &((&f.p - b(1)) >> 1);
            if neg_x {
                y[31] |= 0x80;
            }
            out.push((y, class));
        };
        let mut r3 = rng_for(ctx.seed, P, 997, 0);
        te_formats(&t4, "4-torsion", &mut hostile);
        te_formats(&c.neg(&t4), "4-torsion", &mut hostile);
        te_formats(&c.identity(), "identity-reps", &mut hostile);
        te_formats(&c.t2(), "identity-reps", &mut hostile);
        for e in zoo.iter().take(ctx.scale(40, 400)) {
            te_formats(&c.add(&e.m, &t4), "on-curve-outside-group", &mut hostile);
            te_formats(&e.m, "in-group (TE format)", &mut hostile);
            te_formats(&c.torque(&e.m), "in-group (TE format)", &mut hostile);
            let (x, y) = (rand_below(&mut r3, &f.p), rand_below(&mut r3, &f.p));
            te_formats(&crate::model::Pt { x, y }, "off-curve", &mut hostile);
            hostile.push((c.encode_spec(&e.m).unwrap().to_vec(), "decaf-encoding"));
            hostile.push((rand_bytes(&mut r3, 32), "random"));
            hostile.push((rand_bytes(&mut r3, 64), "random"));
        }
        for cl in ["4-torsion", "identity-reps", "on-curve-outside-group", "in-group (TE format)", "off-curve", "decaf-encoding", "random"] {
            rec.declare_class(&format!("deser:{cl}"));
        }
        type DeFn = fn(&[u8]) -> Result<Vec<El>, String>;
        let modes: Vec<(&'static str, DeFn)> = vec![
            ("Element::deserialize_with_mode(Yes,Yes)", |s| El::deserialize_with_mode(s, Compress::Yes, Validate::Yes).map(|x| vec![x]).map_err(|e| format!("{e:?}"))),
            ("Element::deserialize_with_mode(Yes,No)", |s| El::deserialize_with_mode(s, Compress::Yes, Validate::No).map(|x| vec![x]).map_err(|e| format!("{e:?}"))),
            ("Element::deserialize_with_mode(No,Yes)", |s| El::deserialize_with_mode(s, Compress::No, Validate::Yes).map(|x| vec![x]).map_err(|e| format!("{e:?}"))),
            ("Element::deserialize_with_mode(No,No)", |s| El::deserialize_with_mode(s, Compress::No, Validate::No).map(|x| vec![x]).map_err(|e| format!("{e:?}"))),
            ("AffinePoint::deserialize_with_mode(Yes,Yes)", |s| Af::deserialize_with_mode(s, Compress::Yes, Validate::Yes).map(|a| a.into()).map(|x| vec![x]).map_err(|e| format!("{e:?}"))),
            ("AffinePoint::deserialize_with_mode(Yes,No)", |s| Af::deserialize_with_mode(s, Compress::Yes, Validate::No).map(|a| a.into()).map(|x| vec![x]).map_err(|e| format!("{e:?}"))),
            ("AffinePoint::deserialize_with_mode(No,Yes)", |s| Af::deserialize_with_mode(s, Compress::No, Validate::Yes).map(|a| a.into()).map(|x| vec![x]).map_err(|e| format!("{e:?}"))),
            ("AffinePoint::deserialize_with_mode(No,No)", |s| Af::deserialize_with_mode(s, Compress::No, Validate::No).map(|a| a.into()).map(|x| vec![x]).map_err(|e| format!("{e:?}"))),
            ("AffinePoint::deserialize_uncompressed", |s| Af::deserialize_uncompressed(s).map(|a| a.into()).map(|x| vec![x]).map_err(|e| format!("{e:?}"))),
            ("AffinePoint::deserialize_compressed_unchecked", |s| Af::deserialize_compressed_unchecked(s).map(|a| a.into()).map(|x| vec![x]).map_err(|e| format!("{e:?}"))),
            ("Element::deserialize_uncompressed_unchecked", |s| El::deserialize_uncompressed_unchecked(s).map(|x| vec![x]).map_err(|e| format!("{e:?}"))),
            // containers: ark-serialize reads the items with Validate::No and validates them afterwards through
            // Valid::batch_check, i.e. through the types' own (trivial) `check`
            ("Vec<Element>::deserialize_compressed", |s| { let mut v = 2u64.to_le_bytes().to_vec(); v.extend_from_slice(s); v.extend_from_slice(s); Vec::<El>::deserialize_compressed(&v[..]).map_err(|e| format!("{e:?}")) }),
            ("Vec<AffinePoint>::deserialize_compressed", |s| { let mut v = 1u64.to_le_bytes().to_vec(); v.extend_from_slice(s); Vec::<Af>::deserialize_compressed(&v[..]).map(|l| l.into_iter().map(|a| a.into()).collect()).map_err(|e| format!("{e:?}")) }),
            ("[Element; 2]::deserialize_compressed", |s| { let mut v = s.to_vec(); v.extend_from_slice(s); <[El; 2]>::deserialize_compressed(&v[..]).map(|l| l.to_vec()).map_err(|e| format!("{e:?}")) }),
            ("(Element, AffinePoint)::deserialize_compressed", |s| { let mut v = s.to_vec(); v.extend_from_slice(s); <(El, Af)>::deserialize_compressed(&v[..]).map(|(a, bb)| vec![a, bb.into()]).map_err(|e| format!("{e:?}")) }),
            ("Option<Element>::deserialize_compressed", |s| { let mut v = vec![1u8]; v.extend_from_slice(s); Option::<El>::deserialize_compressed(&v[..]).map(|o| o.into_iter().collect()).map_err(|e| format!("{e:?}")) }),
            ("Vec<Element>::deserialize_uncompressed_unchecked", |s| { let mut v = 1u64.to_le_bytes().to_vec(); v.extend_from_slice(s); Vec::<El>::deserialize_uncompressed_unchecked(&v[..]).map_err(|e| format!("{e:?}")) }),
        ];
        for (name, _) in &modes {
            rec.declare_form(name);
        }
        par(rec, |w, n, rec| {
            for (i, (s, class)) in hostile.iter().enumerate() {
                if i % n != w {
                    continue;
                }
                rec.class(&format!("deser:{class}"));
                for (name, f) in &modes {
                    rec.form(name);
                    rec.eval(&(name, s.clone()), false);
                    let s2 = s.clone();
                    match guarded(|| f(&s2)) {
                        Err(_) => rec.count("deserialisation mode not implemented / panicked (nothing handed out)", 1),
                        Ok(Err(_)) => rec.count("hostile strings rejected", 1),
                        Ok(Ok(es)) => {
                            rec.count("hostile strings accepted", 1);
                            for e in es {
                                validate(ctx, rec, name, &e, json!({"bytes": hx(s), "class": class}), true);
                            }
                        }
                    }
                }
            }
        });
    }

    // deserialisers and conversions on valid inputs (program registers)
    let convs: Vec<(&'static str, fn(&El) -> Vec<El>)> = vec![
        ("Element::deserialize_compressed", |e| vec![El::deserialize_compressed(&enc(e)[..]).unwrap()]),
        ("AffinePoint::deserialize_compressed", |e| vec![Af::deserialize_compressed(&enc(e)[..]).unwrap().into()]),
        ("CurveGroup::into_affine", |e| vec![e.into_affine().into()]),
        ("AffineRepr::into_group", |e| vec![e.into_affine().into_group()]),
        ("CurveGroup::normalize_batch", |e| El::normalize_batch(&[*e, El::GENERATOR, El::IDENTITY, -*e]).into_iter().map(|a| a.into()).collect()),
        ("ScalarMul::batch_convert_to_mul_base", |e| El::batch_convert_to_mul_base(&[*e, El::IDENTITY, *e + *e]).into_iter().map(|a| a.into()).collect()),
        ("AffineRepr::clear_cofactor", |e| vec![e.into_affine().clear_cofactor().into()]),
        ("AffineRepr::mul_by_cofactor_to_group", |e| vec![e.into_affine().mul_by_cofactor_to_group()]),
        ("Encoding::vartime_decompress", |e| vec![dec(&enc(e)).unwrap()]),
    ];
    for (name, _) in &convs {
        rec.declare_form(name);
    }
    par(rec, |w, n, rec| {
        let mut rng = rng_for(ctx.seed, P, w, 3);
        let nprog = ctx.scale(600, 10000);
        for pi in 0..nprog {
            if pi % n != w {
                continue;
            }
            let len = 4 + rand_range(&mut rng, 20);
            let regs = run_program(ctx, rec, P, &mut rng, zoo, len, false);
            rec.count("programs", 1);
            for r in regs.iter().take(3) {
                for (name, f) in &convs {
                    rec.eval(&(name, r.key(), coords(&r.l).2.to_bytes_le()), false);
                    let l = r.l;
                    match guarded(|| f(&l)) {
                        Err(pn) => rec.violation(format!("{P}:{name}:panic"), pn, json!({"input": el_json(&r.l)})),
                        Ok(outs) => {
                            for (k, o) in outs.iter().enumerate() {
                                validate(ctx, rec, name, o, json!({"input": el_json(&r.l), "index": k}), pi % 8 == 0);
                            }
                            // conversions must preserve the element
                            if let Err(why) = denotes(c, &outs[0], &r.m) {
                                rec.violation(format!("{P}:{name}:changes-element"), why, json!({"input": el_json(&r.l)}));
                            }
                        }
                    }
                }
            }
        }
    });

    // batch conversions on batches whose projective Z coordinates are *related*: product 1, sum 0, all
    // equal, one of them 1 / -1, identities of both kinds (also rescaled) in every position; and on long
    // batches (block-wise implementations, sizes around powers of two)
    rec.declare_form("CurveGroup::normalize_batch (related Z coordinates)");
    rec.declare_form("ScalarMul::batch_convert_to_mul_base (related Z coordinates)");
    rec.declare_form("CurveGroup::normalize_batch (long batch)");
    rec.declare_form("ScalarMul::batch_convert_to_mul_base (long batch)");
    let check_batch = |rec: &mut Rec, name: &str, inputs: &[SE], outs: &[Af], full: bool| {
        if outs.len() != inputs.len() {
            rec.violation(format!("{P}:{name}:length"), format!("{} inputs, {} outputs", inputs.len(), outs.len()), json!({}));
            return;
        }
        for (k, (i, o)) in inputs.iter().zip(outs.iter()).enumerate() {
            let oe: El = (*o).into();
            if full || k % 97 == 0 || k + 2 >= inputs.len() || k == 4097 {
                validate(ctx, rec, name, &oe, json!({"index": k, "batch_len": inputs.len()}), full && k % 3 == 0);
            }
            if let Err(why) = denotes(c, &oe, &i.m) {
                rec.violation(format!("{P}:{name}:changes-element"), format!("output {k} of a batch of {}: {why}", inputs.len()), json!({"index": k, "input": el_json(&i.l)}));
                return;
            }
        }
    };
    par(rec, |w, n, rec| {
        let mut rng = rng_for(ctx.seed, P, w, 31);
        let f = &c.f;
        let reps = ctx.scale(160, 3000);
        for rep in 0..reps {
            if rep % n != w {
                continue;
            }
            let len = 2 + rep % 5;
            let pts: Vec<crate::model::Pt> = (0..len).map(|i| if (rep + i) % 11 == 0 { if i % 2 == 0 { c.identity() } else { c.t2() } } else { zoo[rand_range(&mut rng, zoo.len())].m.clone() }).collect();
            let mut lam: Vec<crate::model::B> = (0..len).map(|_| { let l = rand_below(&mut rng, &f.p); if l == b(0) { b(5) } else { l } }).collect();
            // impose a relation on the Z coordinates (= the lambdas)
            match rep % 7 {
                0 => { let prod = lam[..len - 1].iter().fold(b(1), |a, x| f.mul(&a, x)); lam[len - 1] = f.inv(&prod).unwrap(); }          // product = 1
                1 => { let sum = lam[..len - 1].iter().fold(b(0), |a, x| f.add(&a, x)); lam[len - 1] = f.neg(&sum); if lam[len - 1] == b(0) { lam[len - 1] = b(1); } } // sum = 0
                2 => { let l0 = lam[0].clone(); for l in lam.iter_mut() { *l = l0.clone(); } }                                         // all equal
                3 => { lam[rep % len] = b(1); }                                                                                        // one is 1
                4 => { lam[rep % len] = f.neg(&b(1)); lam[(rep + 1) % len] = b(1); }                                                    // -1 and 1
                5 => { let prod = lam[..len - 1].iter().fold(b(1), |a, x| f.mul(&a, x)); lam[len - 1] = f.neg(&f.inv(&prod).unwrap()); } // product = -1
                _ => { let l0 = lam[0].clone(); lam[len - 1] = f.inv(&l0).unwrap(); }                                                  // first * last = 1
            }
            // ... and, every other batch, the same group element twice in a row in two different representations
            // (other scaling, other coset member)
            let mut pts = pts;
            if rep % 2 == 0 {
                let j = 1 + rep % (len - 1);
                pts[j] = if rep % 4 == 0 { pts[j - 1].clone() } else { c.torque(&pts[j - 1]) };
            }
            let inputs: Vec<SE> = pts.iter().zip(lam.iter()).map(|(p, l)| SE { l: from_pt_scaled(c, p, l), m: p.clone(), class: "related-z" }).collect();
            let ls: Vec<El> = inputs.iter().map(|s| s.l).collect();
            rec.eval(&("related-z", rep, inputs.iter().map(|s| s.key()).collect::<Vec<_>>()), false);
            rec.count("batches_with_related_z", 1);
            let ls2 = ls.clone();
            match guarded(|| (El::normalize_batch(&ls2), El::batch_convert_to_mul_base(&ls2))) {
                Err(pn) => rec.violation(format!("{P}:batch conversion:panic"), pn, json!({"relation": rep % 7})),
                Ok((a, bb)) => {
                    rec.form("CurveGroup::normalize_batch (related Z coordinates)");
                    check_batch(rec, "CurveGroup::normalize_batch (related Z coordinates)", &inputs, &a, true);
                    rec.form("ScalarMul::batch_convert_to_mul_base (related Z coordinates)");
                    check_batch(rec, "ScalarMul::batch_convert_to_mul_base (related Z coordinates)", &inputs, &bb, true);
                }
            }
        }
        // long batches: multiples of G accumulated in the library (Z != 1), model side by repeated addition
        let sizes: Vec<usize> = if ctx.tier_thorough { vec![255, 256, 257, 1023, 1024, 1025, 4095, 4096, 4097, 4098, 5000, 8191, 8193, 16385] } else { vec![257, 1025, 4097, 4098, 5000] };
        for (si, &size) in sizes.iter().enumerate() {
            if si % n != w {
                continue;
            }
            let mut inputs: Vec<SE> = Vec::with_capacity(size);
            let mut acc_l = El::GENERATOR + El::GENERATOR;
            let mut acc_m = c.double(&ctx.g);
            let step_l = El::GENERATOR + El::GENERATOR + El::GENERATOR;
            let step_m = c.add(&c.double(&ctx.g), &ctx.g);
            for _ in 0..size {
                inputs.push(SE { l: acc_l, m: acc_m.clone(), class: "long-batch" });
                acc_l = acc_l + step_l;
                acc_m = c.add(&acc_m, &step_m);
            }
            let ls: Vec<El> = inputs.iter().map(|s| s.l).collect();
            rec.eval(&("long-batch", size), false);
            rec.count("long_batch_elements", size as u64);
            match guarded(|| (El::normalize_batch(&ls), El::batch_convert_to_mul_base(&ls))) {
                Err(pn) => rec.violation(format!("{P}:batch conversion (long):panic"), pn, json!({"size": size})),
                Ok((a, bb)) => {
                    rec.form("CurveGroup::normalize_batch (long batch)");
                    check_batch(rec, "CurveGroup::normalize_batch (long batch)", &inputs, &a, false);
                    rec.form("ScalarMul::batch_convert_to_mul_base (long batch)");
                    check_batch(rec, "ScalarMul::batch_convert_to_mul_base (long batch)", &inputs, &bb, false);
                }
            }
        }
    });
}

pub fn run(ctx: &Ctx, rec: &mut Rec) {
    let c = &ctx.c;
    let mut zrng = rng_for(ctx.seed, P, 999, 0);
    let zoo = shadow_zoo(ctx, &mut zrng, ctx.scale(10, 100));
    #[cfg(feature = "ark")]
    ark_part(ctx, rec, &zoo);
    #[cfg(feature = "min")]
    {
        for (name, e) in [("Element::GENERATOR", El::GENERATOR), ("Element::IDENTITY", El::IDENTITY)] {
            rec.eval(&(name,), false);
            validate(ctx, rec, name, &e, json!({}), true);
            let want = if name.contains("GENERATOR") { ctx.g.clone() } else { c.identity() };
            if let Err(why) = denotes(c, &e, &want) {
                rec.violation(format!("{P}:{name}:wrong-constant"), why, json!({"output": el_json(&e)}));
            }
        }
    }
    // outputs of decode and of the hash-to-group maps (both builds)
    rec.declare_form("Encoding::vartime_decompress(random accepted string)");
    rec.declare_form("Element::encode_to_curve");
    rec.declare_form("Element::hash_to_curve");
    par(rec, |w, n, rec| {
        let mut rng = rng_for(ctx.seed, P, w, 4);
        let reps = ctx.scale(12_000, 300_000);
        for rep in 0..reps {
            if rep % n != w {
                continue;
            }
            let r0 = rand_below(&mut rng, &c.f.p);
            let r1 = rand_below(&mut rng, &c.f.p);
            let (l0, l1) = (fq(&r0), fq(&r1));
            rec.eval(&("maps", r0.to_bytes_le(), r1.to_bytes_le()), false);
            match guarded(|| (El::encode_to_curve(&l0), El::hash_to_curve(&l0, &l1))) {
                Err(pn) => rec.violation(format!("{P}:hash-to-group:panic"), pn, json!({"r0": hexs(&r0)})),
                Ok((a, bb)) => {
                    validate(ctx, rec, "Element::encode_to_curve", &a, json!({"r0": hexs(&r0)}), rep % 8 == 0);
                    validate(ctx, rec, "Element::hash_to_curve", &bb, json!({"r0": hexs(&r0), "r1": hexs(&r1)}), rep % 8 == 0);
                }
            }
            let mut s = rand_bytes(&mut rng, 32);
            s[31] &= 0x1f;
            s[0] &= 0xfe;
            if let Ok(Ok(e)) = guarded(|| dec(&arr32(&s))) {
                rec.eval(&("decode", s.clone()), false);
                validate(ctx, rec, "Encoding::vartime_decompress(random accepted string)", &e, json!({"bytes": hx(&s)}), rep % 4 == 0);
            }
        }
    });
    // structured decoder strings (aliases, near-misses, engineered square-root exponents, near-valid
    // rejects, special field values, fold-collision aliases): whatever any decoding entry point hands out
    // must be a valid element
    rec.declare_form("decoding entry points on hostile strings");
    {
        let mut srng = rng_for(ctx.seed, P, 995, 0);
        let strings = crate::encp::decode_strings(ctx, &mut srng, ctx.scale(20, 100), ctx.scale(2000, 100_000), false);
        let eps = crate::encp::entry_points();
        rec.count("hostile_decoder_strings", strings.len() as u64);
        par(rec, |w, n, rec| {
            for (i, (s, class)) in strings.iter().enumerate() {
                if i % n != w {
                    continue;
                }
                for ep in &eps {
                    if s.len() != 32 && !ep.any_len {
                        continue;
                    }
                    let s2 = s.clone();
                    if let Ok((_, Some(e))) = guarded(|| (ep.f)(&s2)) {
                        rec.form("decoding entry points on hostile strings");
                        rec.eval(&("hostile-decode", ep.name, s.clone()), false);
                        // the (expensive) model-side membership test on every string of the special classes and on a
                        // third of the others, through the first entry point; the cheap checks always
                        let special = !matches!(*class, "valid" | "random" | "random-masked-even" | "bit-flip" | "alias s+kq" | "s+1" | "s+2" | "top-bits" | "q-s");
                        validate(ctx, rec, ep.name, &e, json!({"bytes": hx(s), "class": class}), ep.name == eps[0].name && (special || i % 3 == 0));
                    }
                }
            }
        });
    }
    let _ = b(0);
    rec.check_coverage();
}
