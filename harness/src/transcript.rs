//! C12 — transcript of a seeded operation stream over the API both builds share. The stream is
//! generated from the PRNG, the (build-independent) model-side zoos and bytes already in the
//! transcript only, so both binaries execute the same program; the driver diffs the two files.
use crate::ad::*;
use crate::encp::decode_strings;
use crate::fld::*;
use crate::grp::*;
use crate::model::{b, hexs, to_le, B};
use crate::mon::{guarded, h64, hx, par, rng_for, Rec};
use crate::sh::*;
use crate::zoo::{bytes_zoo, field_zoo, rand_below, rand_bytes, rand_range, scalar_int_zoo};
use rand_core::RngCore;
use std::fmt::Write as _;

const P: &str = "C12";

pub const SHARED_BIN: [&str; 12] = [
    "&E + &E", "E + &E", "&E + E", "E + E", "E += &E", "E += E", "&E - &E", "E - &E", "&E - E", "E - E", "E -= &E", "E -= E",
];
pub const SHARED_MUL: [&str; 10] = [
    "E * Fr", "E *= &Fr", "E *= Fr", "&E * &Fr", "&Fr * &E", "E * &Fr", "&E * Fr", "Fr * &E", "&Fr * E", "Fr * E",
];

fn g<T>(f: impl FnOnce() -> T) -> Result<T, String> {
    guarded(f).map_err(|p| format!("PANIC({})", p.lines().next().unwrap_or("")))
}

fn field_section<F: FieldLike>(ctx: &Ctx, out: &mut String, rng: &mut rand_chacha::ChaCha20Rng, shard: usize, nshards: usize, scale: usize) {
    let f = F::fld(ctx);
    let n = F::NBYTES;
    let name = F::NAME;
    let zoo = field_zoo(f);
    let mut zr = rng_for(ctx.seed, "C12-bytes", 0, n as u64);
    let strings = bytes_zoo(f, &mut zr, 200);
    for (i, (s, _)) in strings.iter().enumerate() {
        if i % nshards != shard {
            continue;
        }
        if s.len() == n {
            let s2 = s.clone();
            let r = g(|| {
                let mut a = vec![0u8; n];
                a.copy_from_slice(&s2);
                match n {
                    32 => parse32::<F>(&a),
                    _ => parse48::<F>(&a),
                }
            });
            let _ = writeln!(out, "{name} parse {} -> {:?}", hx(s), r);
        }
        let s2 = s.clone();
        let r = g(|| hx(&to_le(&(F::reducers()[0].f)(&s2).to_b(), n)));
        let _ = writeln!(out, "{name} reduce[{}] {} -> {:?}", s.len(), hx(&s[..s.len().min(48)]), r);
    }
    let bins = F::bins();
    let uns = F::uns();
    // shared arithmetic forms: the first 27 binary forms (operators + inherent) and the first 7 unary
    let nb = 27.min(bins.len());
    let nu = 7.min(uns.len());
    // structured pairs: all ordered pairs of the core zoo, and pairs whose *internal* (Montgomery)
    // representations differ in exactly one 32-bit limb (a, a + d*2^(32 i)/R), through rotating forms
    {
        let core = crate::zoo::field_core(f);
        let n32 = (f.bits + 31) / 32;
        let rinv = f.inv(&((b(1) << (32 * n32)) % &f.p)).unwrap();
        let mut pairs: Vec<(B, B)> = Vec::new();
        for (x, _) in &core {
            for (y, _) in &core {
                pairs.push((x.clone(), y.clone()));
            }
        }
        let mut pr = rng_for(ctx.seed, "C12-limb-neighbours", 0, n as u64);
        for i in 0..n32 {
            for d in [1u64, 1 << 31, 0xffff_ffff, 0x1_0000_0001] {
                let a = rand_below(&mut pr, &f.p);
                let delta = f.mul(&(b(d) << (32 * i)), &rinv);
                let a2 = f.add(&a, &delta);
                pairs.push((a.clone(), a2.clone()));
                pairs.push((a2, a.clone()));
                pairs.push((b(0), delta.clone()));
                pairs.push((delta.clone(), f.neg(&delta)));
                // the same difference on top of an operand whose neighbouring limb has its border bits set
                let border = f.mul(&((b(0x8000_0000) << (32 * i.saturating_sub(1))) + (b(1) << (32 * ((i + 1) % n32)))), &rinv);
                pairs.push((border.clone(), f.add(&border, &delta)));
            }
        }
        for (pi, (a, bb)) in pairs.iter().enumerate() {
            if pi % nshards != shard {
                continue;
            }
            let (la, lb) = (F::from_b(a), F::from_b(bb));
            for k in 0..3 {
                let form = &bins[(pi / nshards + 9 * k) % nb];
                let r = g(|| hx(&to_le(&(form.f)(la, lb).to_b(), n)));
                let _ = writeln!(out, "{name} {} a={} b={} -> {:?}", form.name, hexs(a), hexs(bb), r);
            }
            let r = g(|| format!("{:?} eq={} ne={} hash_eq={}", F::cmp_lib(&la, &lb), la == lb, la != lb, F::hash_bytes(&la).1 == F::hash_bytes(&lb).1));
            let _ = writeln!(out, "{name} cmp/eq/ne/hash a={} b={} -> {:?}", hexs(a), hexs(bb), r);
        }
    }
    // Zeroize (both builds implement it for the three fields): the wiped value reads back as zero
    {
        for k in 0..4u64 {
            if (k as usize) % nshards != shard % 4 {
                continue;
            }
            let v = rand_below(rng, &f.p);
            let mut x = F::from_b(&v);
            let r = g(|| { x.zeroize_field(); hx(&to_le(&x.to_b(), n)) });
            let _ = writeln!(out, "{name} zeroize a={} -> {:?}", hexs(&v), r);
        }
    }
    // inversion and division on the inputs that need the most divstep iterations, and on the fold-symmetric ones
    for (zi, (v, class)) in zoo.iter().enumerate() {
        if !(*class == "divstep-worst-case" || *class == "limb-fold-symmetry") || zi % nshards != shard {
            continue;
        }
        let la = F::from_b(v);
        let r = g(|| (F::invs()[0].f)(la).map(|x| hx(&to_le(&x.to_b(), n))));
        let _ = writeln!(out, "{name} inverse a={} -> {:?}", hexs(v), r);
        let lb = F::from_b(&b(7));
        for form in bins.iter().take(nb).filter(|x| x.op == Op2::Div).take(2) {
            let r = g(|| hx(&to_le(&(form.f)(lb, la).to_b(), n)));
            let _ = writeln!(out, "{name} {} a=7 b={} -> {:?}", form.name, hexs(v), r);
        }
    }
    let reps = scale;
    for rep in 0..reps {
        let a = if rep % 3 == 0 { zoo[rand_range(rng, zoo.len())].0.clone() } else { rand_below(rng, &f.p) };
        let bb = match rep % 5 {
            0 => zoo[rand_range(rng, zoo.len())].0.clone(),
            1 => a.clone(),
            _ => rand_below(rng, &f.p),
        };
        let (la, lb) = (F::from_b(&a), F::from_b(&bb));
        let form = &bins[rand_range(rng, nb)];
        let r = g(|| hx(&to_le(&(form.f)(la, lb).to_b(), n)));
        let _ = writeln!(out, "{name} {} a={} b={} -> {:?}", form.name, hexs(&a), hexs(&bb), r);
        let uf = &uns[rand_range(rng, nu)];
        let r = g(|| hx(&to_le(&(uf.f)(la).to_b(), n)));
        let _ = writeln!(out, "{name} {} a={} -> {:?}", uf.name, hexs(&a), r);
        if rep % 4 == 0 {
            let r = g(|| (F::invs()[0].f)(la).map(|x| hx(&to_le(&x.to_b(), n))));
            let _ = writeln!(out, "{name} inverse a={} -> {:?}", hexs(&a), r);
            let r = g(|| format!("{:?} eq={} hash={}", F::cmp_lib(&la, &lb), la == lb, hx(&F::hash_bytes(&la).1)));
            let _ = writeln!(out, "{name} cmp/eq/hash a={} b={} -> {:?}", hexs(&a), hexs(&bb), r);
            let r = g(|| format!("{la:?}"));
            let _ = writeln!(out, "{name} debug a={} -> {:?}", hexs(&a), r);
        }
        if rep % 8 == 0 {
            let k = rand_range(rng, 5);
            let xs: Vec<B> = (0..k).map(|_| rand_below(rng, &f.p)).collect();
            let lx: Vec<F> = xs.iter().map(F::from_b).collect();
            for fo in F::folds().iter().take(4) {
                let lx2 = lx.clone();
                let r = g(|| hx(&to_le(&(fo.f)(&lx2, &lx2).to_b(), n)));
                let _ = writeln!(out, "{name} {} n={k} first={} -> {:?}", fo.name, xs.first().map(hexs).unwrap_or_default(), r);
            }
            let seed = rng.next_u64();
            let r = g(|| {
                let mut rr = rng_for(seed, "C12-rand", 0, 0);
                hx(&to_le(&F::rand_inherent(&mut rr).to_b(), n))
            });
            let _ = writeln!(out, "{name} rand seed={seed} -> {:?}", r);
            let v = (rng.next_u64() as u128) << (rand_range(rng, 64) as u32) | rng.next_u64() as u128;
            let r = g(|| F::from_u128(v).into_iter().map(|(nm, x)| format!("{nm}={}", hexs(&x.to_b()))).collect::<Vec<_>>());
            let _ = writeln!(out, "{name} from-int {v} -> {:?}", r);
        }
    }
}

fn parse32<F: FieldLike>(a: &[u8]) -> Option<String> {
    (F::parsers()[0].f)(a).map(|x| hexs(&x.to_b()))
}
fn parse48<F: FieldLike>(a: &[u8]) -> Option<String> {
    (F::parsers()[0].f)(a).map(|x| hexs(&x.to_b()))
}

fn el_line(e: &El) -> String {
    match g(|| (enc(e), e.is_identity(), *e == El::IDENTITY, *e == El::GENERATOR)) {
        Ok((bytes, a, bb, c)) => format!("{} id={}{}{}", hx(&bytes), a as u8, bb as u8, c as u8),
        Err(p) => p,
    }
}

fn group_section(ctx: &Ctx, out: &mut String, rng: &mut rand_chacha::ChaCha20Rng, shard: usize, nshards: usize, scale: usize, strings: &[(Vec<u8>, &'static str)]) {
    let c = &ctx.c;
    let f = &c.f;
    // decoding verdicts and re-encodings
    for (i, (s, _)) in strings.iter().enumerate() {
        if i % nshards != shard {
            continue;
        }
        let a = arr32(s);
        let r = g(|| match dec(&a) {
            Ok(e) => format!("ok {}", el_line(&e)),
            Err(e) => format!("err {e:?}"),
        });
        let _ = writeln!(out, "decode {} -> {:?}", hx(s), r);
    }
    // the same 32 bytes stored at every distance from a 16-byte boundary (as an Encoding inside a larger record
    // and as a sub-slice): parsing must not depend on the address of its input
    for (i, (s, _)) in strings.iter().enumerate().take(16 * 12) {
        if i % nshards != shard {
            continue;
        }
        let a = arr32(s);
        for off in 0..16usize {
            let r = g(|| {
                crate::encp::with_placed(off, a, 0x08, &|e: &Encoding| {
                    use std::convert::TryFrom;
                    let d1 = match e.vartime_decompress() { Ok(x) => format!("ok {}", hx(&enc(&x))), Err(x) => format!("err {x:?}") };
                    let d2 = match El::try_from(&e.0[..]) { Ok(x) => format!("ok {}", hx(&enc(&x))), Err(x) => format!("err {x:?}") };
                    let d3 = match El::try_from(e) { Ok(x) => format!("ok {}", hx(&enc(&x))), Err(x) => format!("err {x:?}") };
                    let f1 = Fq::from_bytes_checked(&e.0).map(|x| hx(&x.to_bytes_le())).map_err(|_| "err");
                    let f2 = Fr::from_bytes_checked(&e.0).map(|x| hx(&x.to_bytes_le())).map_err(|_| "err");
                    let f3 = hx(&Fq::from_le_bytes_mod_order(&e.0[..]).to_bytes_le());
                    format!("{d1} | {d2} | {d3} | {f1:?} | {f2:?} | {f3}")
                })
            });
            let _ = writeln!(out, "decode-placed {} off={off} -> {:?}", hx(s), r);
        }
    }
    for len in 0..=64usize {
        if len % nshards != shard {
            continue;
        }
        let s = vec![0u8; len];
        let r = g(|| {
            use std::convert::TryFrom;
            format!("{:?} {:?}", El::try_from(&s[..]).map(|e| enc(&e)), Encoding::try_from(&s[..]).map(|e| e.0))
        });
        let _ = writeln!(out, "decode-slice len={len} -> {:?}", r);
    }
    // hash to group, sqrt_ratio
    let fz = field_zoo(f);
    for rep in 0..scale * 2 {
        let r0 = if rep % 4 == 0 { fz[rand_range(rng, fz.len())].0.clone() } else { rand_below(rng, &f.p) };
        let r1 = if rep % 6 == 0 { f.neg(&r0) } else { rand_below(rng, &f.p) };
        let (l0, l1) = (fq(&r0), fq(&r1));
        let r = g(|| el_line(&El::encode_to_curve(&l0)));
        let _ = writeln!(out, "encode_to_curve {} -> {:?}", hexs(&r0), r);
        if rep % 2 == 0 {
            let r = g(|| el_line(&El::hash_to_curve(&l0, &l1)));
            let _ = writeln!(out, "hash_to_curve {} {} -> {:?}", hexs(&r0), hexs(&r1), r);
        }
        let r = g(|| {
            let (w, y) = sqrt_ratio(&l0, &l1);
            format!("{w} y^2={}", hexs(&fqb(&(y * y))))
        });
        let _ = writeln!(out, "sqrt_ratio {} {} -> {:?}", hexs(&r0), hexs(&r1), r);
    }
    // engineered inputs: ratios whose 2-primary component is chosen (every table window of the
    // table-driven square root, early exits of Tonelli-Shanks) handed to sqrt_ratio directly and, through
    // solved Elligator inputs, to encode_to_curve. Generated model-side from per-target PRNG streams, so
    // both builds see the same values whichever shard they land in.
    {
        let sy = crate::c09::sylow(ctx);
        let targets = crate::c09::structured_exponents(8);
        for (ti, e) in targets.iter().enumerate() {
            if ti % nshards != shard {
                continue;
            }
            let mut er = rng_for(ctx.seed, "C12-engineered", 0, ti as u64);
            let ratio = crate::c09::element_with_exponent(ctx, &sy, e, &mut er);
            let den = { let d = rand_below(&mut er, &f.p); if d == b(0) { b(1) } else { d } };
            let num = f.mul(&ratio, &den);
            for (nu, de) in [(num.clone(), den.clone()), (b(1), f.inv(&ratio).unwrap_or(b(1)))] {
                let (l0, l1) = (fq(&nu), fq(&de));
                let r = g(|| {
                    let (w, y) = sqrt_ratio(&l0, &l1);
                    format!("{w} y^2={}", hexs(&fqb(&(y * y))))
                });
                let _ = writeln!(out, "sqrt_ratio(engineered e={}) {} {} -> {:?}", hexs(e), hexs(&nu), hexs(&de), r);
            }
            for r0 in crate::eng::elligator_r0_for_exponent(ctx, &sy, e, &mut er).into_iter().take(2) {
                let l0 = fq(&r0);
                let r = g(|| el_line(&El::encode_to_curve(&l0)));
                let _ = writeln!(out, "encode_to_curve(engineered e={}) {} -> {:?}", hexs(e), hexs(&r0), r);
            }
        }
    }
    // equality between affine (Z = 1) values that are the same element stored as different coset members
    for ti in 0..48usize {
        if ti % nshards != shard {
            continue;
        }
        let mut er = rng_for(ctx.seed, "C12-affine-eq", 0, ti as u64);
        let k = rand_below(&mut er, &c.r);
        let p = c.mul(&k, &ctx.g);
        let bytes = c.encode_spec(&p).unwrap();
        let r = g(|| {
            let d = dec(&bytes).expect("valid");
            let nd = -d;
            let rn = dec(&enc(&nd)).expect("valid");
            let other = from_pt(c, &c.torque(&p));
            format!("{} {} {} {} {} {}", nd == rn, rn == nd, d == other, other == d, d == from_pt(c, &p), (nd + d).is_identity())
        });
        let _ = writeln!(out, "affine-eq k={} -> {:?}", hexs(&k), r);
    }
    // the sentinel constant of Fq compared with itself / with ordinary elements
    if shard == 0 {
        let r = g(|| format!("{} {} {}", Fq::SENTINEL == Fq::SENTINEL, Fq::SENTINEL == Fq::ZERO, Fq::ONE == Fq::SENTINEL));
        let _ = writeln!(out, "Fq sentinel-eq -> {:?}", r);
    }
    // Elligator collisions: distinct inputs with the same / opposite image (model-side inversion of the map)
    for ti in 0..24usize {
        if ti % nshards != shard {
            continue;
        }
        let mut er = rng_for(ctx.seed, "C12-elligator-collisions", 0, ti as u64);
        let seed_r0 = rand_below(&mut er, &f.p);
        let Some((pt, _)) = c.elligator_spec(&seed_r0) else { continue };
        if pt.x == b(0) {
            continue;
        }
        let pre = crate::eng::elligator_preimages(ctx, &pt, &mut er);
        let pre_neg = crate::eng::elligator_preimages(ctx, &c.neg(&pt), &mut er);
        for (i, r1) in pre.iter().enumerate() {
            for r2 in pre.iter().skip(i + 1).chain(pre_neg.iter().take(2)) {
                let (l0, l1) = (fq(r1), fq(r2));
                let r = g(|| el_line(&El::hash_to_curve(&l0, &l1)));
                let _ = writeln!(out, "hash_to_curve(related inputs) {} {} -> {:?}", hexs(r1), hexs(r2), r);
            }
        }
    }
    // group programs over the shared forms
    let bins = bin_forms();
    let muls = mul_forms();
    let ints = mulint_forms();
    let szoo = scalar_int_zoo(&c.r);
    let find_bin = |nm: &str| bins.iter().find(|x| x.name == nm).expect("shared form");
    let find_mul = |nm: &str| muls.iter().find(|x| x.name == nm).expect("shared form");
    let nprog = scale / 4 + 1;
    for pi in 0..nprog {
        // registers start from decodes of strings that are generated model-side
        let mut regs: Vec<El> = vec![El::GENERATOR, El::IDENTITY];
        for _ in 0..3 {
            let k = rand_below(rng, &c.r);
            let p = c.mul(&k, &ctx.g);
            let bytes = c.encode_spec(&p).unwrap();
            regs.push(dec(&bytes).unwrap_or(El::IDENTITY));
            let r0 = rand_below(rng, &f.p);
            let l0 = fq(&r0);
            regs.push(g(|| El::encode_to_curve(&l0)).unwrap_or(El::IDENTITY));
        }
        let len = 6 + rand_range(rng, 20);
        for step in 0..len {
            let a = regs[rand_range(rng, regs.len())];
            let bb = regs[rand_range(rng, regs.len())];
            let choice = rand_range(rng, 100);
            let (label, res): (String, Result<El, String>) = if choice < 55 {
                let nm = SHARED_BIN[rand_range(rng, SHARED_BIN.len())];
                let form = find_bin(nm);
                (nm.to_string(), g(|| (form.f)(&a, &bb)))
            } else if choice < 65 {
                ("neg".to_string(), g(|| -a))
            } else if choice < 72 {
                #[cfg(feature = "ark")]
                let r = g(|| ark_ec::Group::double(&a));
                #[cfg(feature = "min")]
                let r = g(|| a.double());
                ("double".to_string(), r)
            } else if choice < 92 {
                let nm = SHARED_MUL[rand_range(rng, SHARED_MUL.len())];
                let form = find_mul(nm);
                let k = if rand_range(rng, 3) == 0 { &szoo[rand_range(rng, szoo.len())].0 % &c.r } else { rand_below(rng, &c.r) };
                let lk = fr(&k);
                (format!("{nm} k={}", hexs(&k)), g(|| (form.f)(&a, &lk)))
            } else {
                let which = rand_range(rng, ints.len());
                let k = if rand_range(rng, 2) == 0 { szoo[rand_range(rng, szoo.len())].0.clone() } else { { let nb = 8 * (1 + rand_range(rng, 8)); crate::model::from_le(&rand_bytes(rng, nb)) } };
                let limbs = int_limbs(&k, rand_range(rng, 2));
                let form = &ints[which];
                (format!("mul-int[{which}] k={} limbs={}", hexs(&k), limbs.len()), g(|| (form.f)(&a, &limbs)))
            };
            match res {
                Ok(e) => {
                    let eqs = g(|| (e == a, e == bb));
                    let _ = writeln!(out, "prog {pi}.{step} {label} -> {} eq={:?}", el_line(&e), eqs);
                    let idx = rand_range(rng, 10);
                    if idx < regs.len() {
                        regs[idx] = e;
                    } else {
                        regs.push(e);
                    }
                }
                Err(p) => {
                    let _ = writeln!(out, "prog {pi}.{step} {label} -> {p}");
                }
            }
        }
    }
    let _ = b(0);
}

pub fn run(ctx: &Ctx, rec: &mut Rec, out_path: &str) {
    let nshards = 16usize; // fixed: the transcript must not depend on the machine
    let scale = ctx.scale(1500, 12_000);
    let shards: std::sync::Mutex<Vec<(usize, String)>> = std::sync::Mutex::new(Vec::new());
    // the structured decoder strings are the same for every shard (each shard takes its slice)
    let mut zr = rng_for(ctx.seed, "C12-dec", 0, 0);
    let strings = decode_strings(ctx, &mut zr, 20, scale * 4, true);
    // run the 16 shards on however many workers exist
    par(rec, |w, n, rec| {
        for shard in 0..nshards {
            if shard % n != w {
                continue;
            }
            let mut out = String::new();
            let mut rng = rng_for(ctx.seed, P, shard, 0);
            field_section::<Fq>(ctx, &mut out, &mut rng, shard, nshards, scale);
            field_section::<Fr>(ctx, &mut out, &mut rng, shard, nshards, scale);
            field_section::<Fp>(ctx, &mut out, &mut rng, shard, nshards, scale);
            group_section(ctx, &mut out, &mut rng, shard, nshards, scale, &strings);
            for line in out.lines() {
                rec.evals += 1;
                rec.distinct.insert(h64(&line));
                let kind = line_kind(line);
                rec.count(&format!("lines: {kind}"), 1);
                if line.contains("PANIC(") {
                    rec.count("lines recording a panic", 1);
                }
            }
            shards.lock().unwrap().push((shard, out));
        }
    });
    let mut shards = shards.into_inner().unwrap();
    shards.sort_by_key(|x| x.0);
    let mut all = String::new();
    for (i, s) in &shards {
        let _ = writeln!(all, "# shard {i}");
        all.push_str(s);
    }
    for l in all.lines().filter(|l| l.starts_with("prog")).take(3) {
        rec.sample(serde_json::json!({"transcript_line": l}));
    }
    for l in all.lines().filter(|l| l.starts_with("decode ")).take(2) {
        rec.sample(serde_json::json!({"transcript_line": l}));
    }
    std::fs::write(format!("{out_path}.transcript"), all).expect("write transcript");
}

/// coarse classification of a transcript line (for the per-kind counters in the evidence)
fn line_kind(line: &str) -> String {
    if line.starts_with("prog") {
        return "group program step".to_string();
    }
    let head = line.split(" -> ").next().unwrap_or("");
    let mut toks: Vec<&str> = Vec::new();
    for t in head.split(' ') {
        if t.contains('=') {
            break;
        }
        let t = t.split('[').next().unwrap_or(t);
        let hexish = t.len() >= 8 && t.chars().all(|c| c.is_ascii_hexdigit());
        let numeric = !t.is_empty() && t.chars().all(|c| c.is_ascii_digit());
        let oxhex = t.starts_with("0x");
        if hexish || numeric || oxhex || t.is_empty() {
            continue;
        }
        toks.push(t);
    }
    toks.join(" ")
}
