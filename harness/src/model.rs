//! Shadow reference model: plain BigUint arithmetic, independent of arkworks and fiat-crypto.
//!
//! * `Fld` — integers mod a prime with textbook algorithms (Euler, Tonelli–Shanks).
//! * `Curve` — affine twisted Edwards points with the unified addition law of
//!   `QuotientEdwardsPoint.__add__` in /repo/ristretto.sage.
//! * `encode_spec`, `decode_spec`, `elligator_spec` — the *unoptimised* specification
//!   functions of `Decaf_1_1_Point` / `Decaf377Point` in ristretto.sage.
#![allow(dead_code)]
use num_bigint::BigUint;
use num_traits::{One, Zero};

pub type B = BigUint;

pub fn b(v: u64) -> B {
    B::from(v)
}
pub fn from_le(bytes: &[u8]) -> B {
    B::from_bytes_le(bytes)
}
pub fn from_be(bytes: &[u8]) -> B {
    B::from_bytes_be(bytes)
}
pub fn from_dec(s: &str) -> B {
    B::parse_bytes(s.as_bytes(), 10).expect("decimal")
}
pub fn from_hex(s: &str) -> B {
    B::parse_bytes(s.as_bytes(), 16).expect("hex")
}
pub fn to_le(v: &B, n: usize) -> Vec<u8> {
    let mut o = v.to_bytes_le();
    assert!(o.len() <= n || o[n..].iter().all(|x| *x == 0), "value does not fit");
    o.resize(n, 0);
    o
}
pub fn limbs64(v: &B, n: usize) -> Vec<u64> {
    let mut o = v.to_u64_digits();
    assert!(o.len() <= n);
    o.resize(n, 0);
    o
}
pub fn from_limbs64(l: &[u64]) -> B {
    let mut bytes = Vec::with_capacity(l.len() * 8);
    for x in l {
        bytes.extend_from_slice(&x.to_le_bytes());
    }
    from_le(&bytes)
}
pub fn hexs(v: &B) -> String {
    format!("0x{}", v.to_str_radix(16))
}

/// BLS12-377 parameter x.
pub const BLS_X: u64 = 0x8508c00000000001;

/// q = x^4 - x^2 + 1 (scalar field of BLS12-377 = base field of decaf377).
pub fn derive_q() -> B {
    let x = b(BLS_X);
    let x2 = &x * &x;
    &x2 * &x2 - &x2 + b(1)
}
/// p = (x-1)^2 * q / 3 + x (base field of BLS12-377).
pub fn derive_p() -> B {
    let x = b(BLS_X);
    let xm1 = &x - b(1);
    (&xm1 * &xm1 * derive_q()) / b(3) + x
}
/// r: order of the decaf377 group (validated in the self-test, not trusted).
pub fn claimed_r() -> B {
    from_dec("2111115437357092606062206234695386632838870926408408195193685246394721360383")
}

#[derive(Clone, Debug)]
pub struct Fld {
    pub p: B,
    pub bits: usize,
    pub nbytes: usize,
    /// p - 1 = 2^s * t with t odd
    pub s: u32,
    pub t: B,
    /// a fixed quadratic non-residue found by search (model-internal, for Tonelli–Shanks)
    nonres: B,
}

impl Fld {
    pub fn new(p: B) -> Self {
        let bits = p.bits() as usize;
        let nbytes = (bits + 7) / 8;
        let pm1 = &p - b(1);
        let mut s = 0u32;
        let mut t = pm1.clone();
        while (&t & b(1)).is_zero() {
            t >>= 1;
            s += 1;
        }
        let mut f = Fld { p, bits, nbytes, s, t, nonres: b(0) };
        let mut c = b(2);
        loop {
            if f.legendre(&c) == -1 {
                break;
            }
            c += b(1);
        }
        f.nonres = c;
        f
    }
    pub fn red(&self, v: &B) -> B {
        v % &self.p
    }
    pub fn add(&self, a: &B, c: &B) -> B {
        (a + c) % &self.p
    }
    pub fn sub(&self, a: &B, c: &B) -> B {
        ((a + &self.p) - (c % &self.p)) % &self.p
    }
    pub fn neg(&self, a: &B) -> B {
        (&self.p - (a % &self.p)) % &self.p
    }
    pub fn mul(&self, a: &B, c: &B) -> B {
        (a * c) % &self.p
    }
    pub fn sq(&self, a: &B) -> B {
        (a * a) % &self.p
    }
    pub fn pow(&self, a: &B, e: &B) -> B {
        a.modpow(e, &self.p)
    }
    /// inverse by Fermat (independent of any library inverse); None for 0
    pub fn inv(&self, a: &B) -> Option<B> {
        let a = a % &self.p;
        if a.is_zero() {
            None
        } else {
            Some(a.modpow(&(&self.p - b(2)), &self.p))
        }
    }
    pub fn div(&self, a: &B, c: &B) -> Option<B> {
        self.inv(c).map(|i| self.mul(a, &i))
    }
    /// 0, 1 or -1 by Euler's criterion
    pub fn legendre(&self, a: &B) -> i32 {
        let a = a % &self.p;
        if a.is_zero() {
            return 0;
        }
        let e = (&self.p - b(1)) >> 1;
        let r = a.modpow(&e, &self.p);
        if r.is_one() {
            1
        } else {
            assert_eq!(r, &self.p - b(1), "Euler criterion: p not prime?");
            -1
        }
    }
    pub fn is_square(&self, a: &B) -> bool {
        self.legendre(a) >= 0
    }
    /// Tonelli–Shanks; returns some root or None.
    pub fn sqrt(&self, a: &B) -> Option<B> {
        let a = a % &self.p;
        if a.is_zero() {
            return Some(a);
        }
        if self.legendre(&a) != 1 {
            return None;
        }
        let mut m = self.s;
        let mut c = self.nonres.modpow(&self.t, &self.p);
        let mut t = a.modpow(&self.t, &self.p);
        let mut r = a.modpow(&((&self.t + b(1)) >> 1), &self.p);
        while !t.is_one() {
            let mut i = 0u32;
            let mut t2 = t.clone();
            while !t2.is_one() {
                t2 = self.sq(&t2);
                i += 1;
                assert!(i < m);
            }
            let mut bb = c.clone();
            for _ in 0..(m - i - 1) {
                bb = self.sq(&bb);
            }
            m = i;
            c = self.sq(&bb);
            t = self.mul(&t, &c);
            r = self.mul(&r, &bb);
        }
        debug_assert_eq!(self.sq(&r), a);
        Some(r)
    }
    pub fn is_negative(&self, a: &B) -> bool {
        (a % &self.p).bit(0)
    }
    pub fn abs(&self, a: &B) -> B {
        if self.is_negative(a) {
            self.neg(a)
        } else {
            a % &self.p
        }
    }
    pub fn to_bytes(&self, a: &B) -> Vec<u8> {
        to_le(&(a % &self.p), self.nbytes)
    }
}

/// Deterministic Miller–Rabin with the first 24 prime bases (plenty for a sanity check).
pub fn is_probable_prime(n: &B) -> bool {
    if n < &b(2) {
        return false;
    }
    let small = [2u64, 3, 5, 7, 11, 13, 17, 19, 23, 29, 31, 37, 41, 43, 47, 53, 59, 61, 67, 71, 73, 79, 83, 89];
    for s in small {
        if n == &b(s) {
            return true;
        }
        if (n % b(s)).is_zero() {
            return false;
        }
    }
    let nm1 = n - b(1);
    let mut d = nm1.clone();
    let mut r = 0;
    while !d.bit(0) {
        d >>= 1;
        r += 1;
    }
    'outer: for a in small {
        let mut x = b(a).modpow(&d, n);
        if x.is_one() || x == nm1 {
            continue;
        }
        for _ in 0..r - 1 {
            x = (&x * &x) % n;
            if x == nm1 {
                continue 'outer;
            }
        }
        return false;
    }
    true
}

#[derive(Clone, Debug, PartialEq, Eq, Hash)]
pub struct Pt {
    pub x: B,
    pub y: B,
}

/// Projective (X:Y:Z) representation used only inside model scalar multiplication.
#[derive(Clone, Debug)]
struct PPt {
    x: B,
    y: B,
    z: B,
}

#[derive(Clone, Debug)]
pub struct Curve {
    pub f: Fld,
    pub a: B,
    pub d: B,
    pub zeta: B,
    pub r: B,
}

#[derive(Clone, Debug, PartialEq, Eq)]
pub enum SpecErr {
    WrongLength,
    NonCanonical,
    Negative,
    NotOnCurve,
}

impl Curve {
    pub fn decaf377() -> Self {
        let f = Fld::new(derive_q());
        let a = f.neg(&b(1));
        let d = b(3021);
        let zeta = from_dec("2841681278031794617739547238867782961338435681360110683443920362658525667816");
        Curve { f, a, d, zeta, r: claimed_r() }
    }
    pub fn identity(&self) -> Pt {
        Pt { x: b(0), y: b(1) }
    }
    /// the 2-torsion point (0,-1)
    pub fn t2(&self) -> Pt {
        Pt { x: b(0), y: self.f.neg(&b(1)) }
    }
    pub fn on_curve(&self, p: &Pt) -> bool {
        let f = &self.f;
        let xx = f.sq(&p.x);
        let yy = f.sq(&p.y);
        let lhs = f.add(&yy, &f.mul(&self.a, &xx));
        let rhs = f.add(&b(1), &f.mul(&self.d, &f.mul(&xx, &yy)));
        lhs == rhs
    }
    /// QuotientEdwardsPoint.__add__
    pub fn add(&self, p: &Pt, q: &Pt) -> Pt {
        let f = &self.f;
        let (x, y) = (&p.x, &p.y);
        let (xx, yy) = (&q.x, &q.y);
        let dxyxy = f.mul(&self.d, &f.mul(&f.mul(x, y), &f.mul(xx, yy)));
        let nx = f.add(&f.mul(x, yy), &f.mul(y, xx));
        let dx = f.add(&b(1), &dxyxy);
        let ny = f.sub(&f.mul(y, yy), &f.mul(&self.a, &f.mul(x, xx)));
        let dy = f.sub(&b(1), &dxyxy);
        Pt {
            x: f.div(&nx, &dx).expect("complete addition law: denominator != 0"),
            y: f.div(&ny, &dy).expect("complete addition law: denominator != 0"),
        }
    }
    pub fn neg(&self, p: &Pt) -> Pt {
        Pt { x: self.f.neg(&p.x), y: p.y.clone() }
    }
    pub fn sub(&self, p: &Pt, q: &Pt) -> Pt {
        self.add(p, &self.neg(q))
    }
    pub fn double(&self, p: &Pt) -> Pt {
        self.add(p, p)
    }
    /// (x,y) -> (-x,-y): the other member of the coset {P, P + (0,-1)}
    pub fn torque(&self, p: &Pt) -> Pt {
        Pt { x: self.f.neg(&p.x), y: self.f.neg(&p.y) }
    }
    /// decaf equality  x1*y2 == x2*y1
    pub fn eq(&self, p: &Pt, q: &Pt) -> bool {
        self.f.mul(&p.x, &q.y) == self.f.mul(&q.x, &p.y)
    }
    pub fn is_identity(&self, p: &Pt) -> bool {
        p.x.is_zero()
    }
    fn padd(&self, p: &PPt, q: &PPt) -> PPt {
        // homogenisation of the affine law (add-2008-bbjlp)
        let f = &self.f;
        let a = f.mul(&p.z, &q.z);
        let bb = f.sq(&a);
        let c = f.mul(&p.x, &q.x);
        let d = f.mul(&p.y, &q.y);
        let e = f.mul(&self.d, &f.mul(&c, &d));
        let ff = f.sub(&bb, &e);
        let g = f.add(&bb, &e);
        let t = f.sub(&f.sub(&f.mul(&f.add(&p.x, &p.y), &f.add(&q.x, &q.y)), &c), &d);
        let x3 = f.mul(&a, &f.mul(&ff, &t));
        let y3 = f.mul(&a, &f.mul(&g, &f.sub(&d, &f.mul(&self.a, &c))));
        let z3 = f.mul(&ff, &g);
        PPt { x: x3, y: y3, z: z3 }
    }
    /// k-fold sum by double-and-add over the *integer* k (no reduction mod r).
    pub fn mul(&self, k: &B, p: &Pt) -> Pt {
        let mut acc = PPt { x: b(0), y: b(1), z: b(1) };
        let mut work = PPt { x: p.x.clone(), y: p.y.clone(), z: b(1) };
        let nbits = k.bits();
        for i in 0..nbits {
            if k.bit(i) {
                acc = self.padd(&acc, &work);
            }
            if i + 1 < nbits {
                work = self.padd(&work, &work);
            }
        }
        let zi = self.f.inv(&acc.z).expect("Z != 0");
        Pt { x: self.f.mul(&acc.x, &zi), y: self.f.mul(&acc.y, &zi) }
    }
    /// slow affine double-and-add (used in the self-test to validate `mul`)
    pub fn mul_affine(&self, k: &B, p: &Pt) -> Pt {
        let mut total = self.identity();
        let mut work = p.clone();
        for i in 0..k.bits() {
            if k.bit(i) {
                total = self.add(&total, &work);
            }
            work = self.add(&work, &work);
        }
        total
    }
    /// P in 2E  <=>  r*P in {(0,1),(0,-1)}
    pub fn in_2e(&self, p: &Pt) -> bool {
        self.on_curve(p) && self.mul(&self.r, p).x.is_zero()
    }

    /// sage xsqrt: the non-negative root, None if non-square
    fn xsqrt(&self, v: &B) -> Option<B> {
        let s = self.f.sqrt(v)?;
        Some(self.f.abs(&s))
    }

    /// Decaf_1_1_Point.encodeSpec (cofactor 4, isoMagic = 1); returns the field element s.
    pub fn encode_spec_fe(&self, p: &Pt) -> Option<B> {
        let f = &self.f;
        if p.x.is_zero() || p.y.is_zero() {
            return Some(b(0));
        }
        let sr = self.xsqrt(&f.sub(&b(1), &f.mul(&self.a, &f.sq(&p.x))))?;
        let altx = f.div(&f.mul(&p.x, &p.y), &sr)?;
        let num = if f.is_negative(&altx) { f.add(&b(1), &sr) } else { f.sub(&b(1), &sr) };
        let s = f.div(&num, &p.x)?;
        Some(f.abs(&s))
    }
    pub fn encode_spec(&self, p: &Pt) -> Option<[u8; 32]> {
        let s = self.encode_spec_fe(p)?;
        let mut o = [0u8; 32];
        o.copy_from_slice(&to_le(&s, 32));
        Some(o)
    }
    /// Decaf_1_1_Point.decodeSpec on a field element known to be canonical & non-negative
    pub fn decode_spec_fe(&self, s: &B) -> Result<Pt, SpecErr> {
        let f = &self.f;
        if s >= &f.p {
            return Err(SpecErr::NonCanonical);
        }
        if f.is_negative(s) {
            return Err(SpecErr::Negative);
        }
        if s.is_zero() {
            return Ok(self.identity());
        }
        let a = &self.a;
        let ss = f.sq(s);
        // t = xsqrt(a^2 s^4 + 2 (a - 2d) s^2 + 1)
        let am2d = f.sub(a, &f.mul(&b(2), &self.d));
        let arg = f.add(&f.add(&f.mul(&f.sq(a), &f.sq(&ss)), &f.mul(&f.mul(&b(2), &am2d), &ss)), &b(1));
        let mut t = self.xsqrt(&arg).ok_or(SpecErr::NotOnCurve)?;
        let altx = f.div(&f.mul(&b(2), s), &t).ok_or(SpecErr::NotOnCurve)?;
        if f.is_negative(&altx) {
            t = f.neg(&t);
        }
        let x = f.div(&f.mul(&b(2), s), &f.add(&b(1), &f.mul(a, &ss))).ok_or(SpecErr::NotOnCurve)?;
        let y = f.div(&f.sub(&b(1), &f.mul(a, &ss)), &t).ok_or(SpecErr::NotOnCurve)?;
        let p = Pt { x, y };
        if !self.on_curve(&p) {
            return Err(SpecErr::NotOnCurve);
        }
        Ok(p)
    }
    /// specification decoder on byte strings: length 32, value < q, non-negative, decodeSpec
    pub fn decode_spec(&self, bytes: &[u8]) -> Result<Pt, SpecErr> {
        if bytes.len() != 32 {
            return Err(SpecErr::WrongLength);
        }
        let s = from_le(bytes);
        self.decode_spec_fe(&s)
    }
    fn from_jacobi_quartic(&self, s: &B, t: &B) -> Option<Pt> {
        let f = &self.f;
        if s.is_zero() {
            return Some(self.identity());
        }
        let x = f.div(&f.mul(&b(2), s), &f.add(&b(1), &f.mul(&self.a, &f.sq(s))))?;
        let y = f.div(&f.sub(&b(1), &f.mul(&self.a, &f.sq(s))), t)?;
        Some(Pt { x, y })
    }
    /// Decaf_1_1_Point.elligatorSpec with r0 already a field element. None = spec undefined.
    pub fn elligator_spec(&self, r0: &B) -> Option<(Pt, bool)> {
        let f = &self.f;
        let (a, d) = (&self.a, &self.d);
        let r = f.mul(&self.zeta, &f.sq(r0));
        let dma = f.sub(d, a);
        let den = f.mul(&f.sub(&f.mul(d, &r), &dma), &f.sub(&f.mul(&dma, &r), d));
        if den.is_zero() {
            return Some((self.identity(), true));
        }
        let am2d = f.sub(a, &f.mul(&b(2), d));
        let n1 = f.div(&f.mul(&f.add(&r, &b(1)), &am2d), &den)?;
        let n2 = f.mul(&r, &n1);
        let rm1 = f.sub(&r, &b(1));
        let am2d2 = f.sq(&am2d);
        let (s, t, sq);
        if f.is_square(&n1) {
            sq = true;
            s = self.xsqrt(&n1)?;
            // t = -(r-1)(a-2d)^2/den - 1
            t = f.sub(&f.neg(&f.div(&f.mul(&rm1, &am2d2), &den)?), &b(1));
        } else {
            sq = false;
            s = f.neg(&self.xsqrt(&n2)?);
            t = f.sub(&f.div(&f.mul(&r, &f.mul(&rm1, &am2d2)), &den)?, &b(1));
        }
        let p = self.from_jacobi_quartic(&s, &t)?;
        Some((p, sq))
    }
}

/// Data that does not come from the code under test: vectors shipped with the repository
/// (sage-generated), used only for the oracle self-test.
pub const SAGE_GENERATOR_MULTIPLES: [&str; 16] = [
    "0000000000000000000000000000000000000000000000000000000000000000",
    "0800000000000000000000000000000000000000000000000000000000000000",
    "b2ecf9b9082d6306538be73b0d6ee741141f3222152da78685d6596efc8c1506",
    "2ebd42dd3a2307083c834e79fb9e787e352dd33e0d719f86ae4adb02fe382409",
    "6acd327d70f9588fac373d165f4d9d5300510274dffdfdf2bf0955acd78da50d",
    "460f913e516441c286d95dd30b0a2d2bf14264f325528b06455d7cb93ba13a0b",
    "ec8798bcbb3bf29329549d769f89cf7993e15e2c68ec7aa2a956edf5ec62ae07",
    "48b01e513dd37d94c3b48940dc133b92ccba7f546e99d3fc2e602d284f609f00",
    "a4e85dddd19c80ecf5ef10b9d27b6626ac1a4f90bd10d263c717ecce4da6570a",
    "1a8fea8cbfbc91236d8c7924e3e7e617f9dd544b710ee83827737fe8dc63ae00",
    "0a0f86eaac0c1af30eb138467c49381edb2808904c81a4b81d2b02a2d7816006",
    "588125a8f4e2bab8d16affc4ca60c5f64b50d38d2bb053148021631f72e99b06",
    "f43f4cefbe7326eaab1584722b1b4860de554b23a14490a03f3fd63a089add0b",
    "76c739a33ffd15cf6554a8e705dc573f26490b64de0c5bd4e4ac75ed5af8e60b",
    "200136952d18d3f6c70347032ba3fef4f60c240d706be2950b4f42f1a7087705",
    "bcb0f922df1c7aa9579394020187a2e19e2d8073452c6ab9b0c4b052aa50f505",
];

/// testElligatorDeterministic vectors (input bytes LE, expected x, expected y)
pub const SAGE_ELLIGATOR: [([u8; 32], &str, &str); 8] = [
    ([221, 101, 215, 58, 170, 229, 36, 124, 172, 234, 94, 214, 186, 163, 242, 30, 65, 123, 76, 74, 56, 60, 24, 213, 240, 137, 49, 189, 138, 39, 90, 6],
     "1267955849280145133999011095767946180059440909377398529682813961428156596086",
     "5356565093348124788258444273601808083900527100008973995409157974880178412098"),
    ([23, 203, 214, 51, 26, 149, 7, 160, 228, 239, 208, 147, 124, 109, 75, 72, 64, 16, 64, 215, 53, 185, 249, 168, 188, 49, 22, 194, 118, 7, 242, 16],
     "1502379126429822955521756759528876454108853047288874182661923263559139887582",
     "7074060208122316523843780248565740332109149189893811936352820920606931717751"),
    ([177, 123, 90, 180, 115, 7, 108, 183, 161, 167, 24, 15, 248, 218, 206, 227, 76, 137, 162, 187, 148, 174, 66, 44, 205, 1, 211, 91, 140, 50, 144, 1],
     "2943006201157313879823661217587757631000260143892726691725524748591717287835",
     "4988568968545687084099497807398918406354768651099165603393269329811556860241"),
    ([204, 225, 121, 228, 145, 30, 86, 208, 132, 242, 203, 9, 153, 90, 195, 150, 215, 49, 166, 70, 78, 68, 47, 98, 30, 130, 115, 139, 168, 242, 238, 8],
     "2893226299356126359042735859950249532894422276065676168505232431940642875576",
     "5540423804567408742733533031617546054084724133604190833318816134173899774745"),
    ([59, 150, 40, 159, 229, 96, 201, 47, 170, 163, 9, 208, 205, 201, 112, 241, 179, 82, 198, 79, 207, 160, 184, 245, 63, 189, 101, 115, 217, 228, 74, 13],
     "2950911977149336430054248283274523588551527495862004038190631992225597951816",
     "4487595759841081228081250163499667279979722963517149877172642608282938805393"),
    ([74, 159, 227, 190, 73, 213, 131, 200, 50, 102, 249, 230, 48, 103, 85, 168, 239, 149, 7, 164, 12, 42, 217, 177, 189, 97, 214, 98, 102, 73, 10, 16],
     "3318574188155535806336376903248065799756521242795466350457330678746659358665",
     "7706453242502782485686954136003233626318476373744684895503194201695334921001"),
    ([183, 227, 227, 192, 119, 10, 155, 143, 64, 60, 249, 165, 240, 39, 31, 197, 159, 121, 64, 82, 10, 1, 34, 35, 121, 34, 146, 69, 226, 196, 156, 14],
     "3753408652523927772367064460787503971543824818235418436841486337042861871179",
     "2820605049615187268236268737743168629279853653807906481532750947771625104256"),
    ([61, 21, 56, 224, 11, 181, 71, 186, 238, 126, 234, 240, 14, 168, 75, 73, 251, 111, 175, 85, 108, 9, 77, 2, 88, 249, 24, 235, 53, 96, 51, 15],
     "7803875556376973796629423752730968724982795310878526731231718944925551226171",
     "7033839813997913565841973681083930410776455889380940679209912201081069572111"),
];

/// Oracle self-test. Err(reason) => harness error (inconclusive), never a violation.
pub fn self_test(c: &Curve) -> Result<Vec<String>, String> {
    let mut notes = Vec::new();
    let q = derive_q();
    let p = derive_p();
    if hexs(&q) != "0x12ab655e9a2ca55660b44d1e5c37b00159aa76fed00000010a11800000000001" {
        return Err(format!("derived q unexpected: {}", hexs(&q)));
    }
    if hexs(&p) != "0x1ae3a4617c510eac63b05c06ca1493b1a22d9f300f5138f1ef3622fba094800170b5d44300000008508c00000000001" {
        return Err(format!("derived p unexpected: {}", hexs(&p)));
    }
    for (n, v) in [("q", &q), ("p", &p), ("r", &c.r)] {
        if !is_probable_prime(v) {
            return Err(format!("{n} fails Miller-Rabin"));
        }
    }
    notes.push("q,p derived from BLS x; q,p,r pass Miller-Rabin".into());
    // Hasse: |4r - (q+1)| <= 2 sqrt(q)
    let four_r = &c.r * b(4);
    let qp1 = &q + b(1);
    let diff = if four_r > qp1 { &four_r - &qp1 } else { &qp1 - &four_r };
    if &diff * &diff > &q * b(4) {
        return Err("4r outside Hasse interval".into());
    }
    if c.f.legendre(&c.d) != -1 {
        return Err("d is a square: addition law not complete".into());
    }
    if c.f.legendre(&c.zeta) != -1 {
        return Err("zeta is a square".into());
    }
    if c.f.legendre(&c.f.mul(&c.a, &c.d)) != -1 {
        // a = -1 is a square iff q = 1 mod 4; a*d non-square  <=> complete
        return Err("a*d square".into());
    }
    // generator = decodeSpec(8); multiples against the sage vectors
    let g = c.decode_spec_fe(&b(8)).map_err(|e| format!("decodeSpec(8): {e:?}"))?;
    let mut acc = c.identity();
    for (i, hexstr) in SAGE_GENERATOR_MULTIPLES.iter().enumerate() {
        let want = hex::decode(hexstr).unwrap();
        let got = c.encode_spec(&acc).ok_or("encodeSpec failed")?;
        if got[..] != want[..] {
            return Err(format!("encodeSpec({i}*G) mismatch with sage vector"));
        }
        let got_t = c.encode_spec(&c.torque(&acc)).ok_or("encodeSpec failed")?;
        if got_t[..] != want[..] {
            return Err(format!("encodeSpec(torque {i}*G) mismatch"));
        }
        let dec = c.decode_spec(&want).map_err(|e| format!("decodeSpec vec {i}: {e:?}"))?;
        if !c.eq(&dec, &acc) {
            return Err(format!("decodeSpec vec {i} not equal to {i}*G"));
        }
        let via_mul = c.mul(&b(i as u64), &g);
        if !c.eq(&via_mul, &acc) || via_mul != c.mul_affine(&b(i as u64), &g) {
            return Err(format!("model mul {i}*G mismatch"));
        }
        acc = c.add(&acc, &g);
    }
    notes.push("16 sage generator multiples: encodeSpec/decodeSpec/add/mul agree (both coset members)".into());
    let rg = c.mul(&c.r, &g);
    if !rg.x.is_zero() {
        return Err("r*G is not an identity representative in the model".into());
    }
    if c.is_identity(&g) {
        return Err("G is identity".into());
    }
    for (bytes, xs, ys) in SAGE_ELLIGATOR.iter() {
        let r0 = c.f.red(&from_le(bytes));
        let (pt, _) = c.elligator_spec(&r0).ok_or("elligatorSpec undefined on vector")?;
        let want = Pt { x: from_dec(xs), y: from_dec(ys) };
        if !c.eq(&pt, &want) || !c.on_curve(&pt) {
            return Err("elligatorSpec mismatch with sage vector".into());
        }
    }
    notes.push("8 sage Elligator vectors agree with elligatorSpec".into());
    let (e0, _) = c.elligator_spec(&b(0)).ok_or("elligatorSpec(0)")?;
    if !c.is_identity(&e0) {
        return Err("elligatorSpec(0) is not identity".into());
    }
    // s = q-1: even? q-1 is even => non-negative; must be rejected by the spec (non-square)
    let qm1 = &q - b(1);
    if c.decode_spec_fe(&qm1).is_ok() {
        return Err("decodeSpec(q-1) accepted by the model".into());
    }
    // projective vs affine model mul on a larger scalar
    let k = from_dec("123456789012345678901234567890123456789");
    if c.mul(&k, &g) != c.mul_affine(&k, &g) {
        return Err("model projective mul != affine mul".into());
    }
    // Tonelli-Shanks sanity
    for v in [2u64, 3, 5, 7, 11, 13, 17] {
        let sq = c.f.sq(&b(v));
        let r = c.f.sqrt(&sq).ok_or("sqrt failed")?;
        if c.f.sq(&r) != sq {
            return Err("Tonelli-Shanks wrong".into());
        }
    }
    notes.push("r*G = identity, G != identity, elligatorSpec(0) = identity, decodeSpec(q-1) rejects".into());
    Ok(notes)
}
