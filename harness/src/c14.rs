//! C14 — R1CS gadgets are sound against adversarial prover hints (fault enumeration through
//! the `decaf377_verif` hooks: isqrt hint override, unchecked element constructor).
use crate::ad::*;
use crate::c13::{inp_json, inputs_for};
use crate::model::{b, hexs, Pt, B};
use crate::mon::{guarded, par, rng_for, Rec};
use crate::r1::*;
use crate::sh::*;
use crate::zoo::{rand_below, rand_range};
use decaf377::r1cs::verif_hooks::{isqrt_calls, set_isqrt_hint_override};
use serde_json::json;
use std::sync::{Arc, Mutex};

const P: &str = "C14";

/// hint candidates for one isqrt call, computed model-side from the observed `den`:
/// {true,false} x {0, +-1, +-sqrt(1/den), +-sqrt(zeta/den), +-honest, zeta*honest, randoms}.
/// The case block only ever constrains y^2 to 1/den (1 if den = 0), 0 or zeta/den, so this
/// set contains every value that can satisfy any case equation.
pub fn candidates(ctx: &Ctx, den: &B, honest_y: &B, extra_random: &[B]) -> Vec<(bool, B, &'static str)> {
    let f = &ctx.c.f;
    let mut ys: Vec<(B, &'static str)> = vec![(b(0), "y=0"), (b(1), "y^2=1"), (f.neg(&b(1)), "y^2=1")];
    if let Some(inv) = f.inv(den) {
        if let Some(r) = f.sqrt(&inv) {
            ys.push((r.clone(), "y^2=1/den"));
            ys.push((f.neg(&r), "y^2=1/den"));
        }
        if let Some(r) = f.sqrt(&f.mul(&ctx.c.zeta, &inv)) {
            ys.push((r.clone(), "y^2=zeta/den"));
            ys.push((f.neg(&r), "y^2=zeta/den"));
        }
    }
    ys.push((honest_y.clone(), "honest"));
    ys.push((f.neg(honest_y), "-honest"));
    ys.push((f.mul(&ctx.c.zeta, honest_y), "zeta*honest"));
    for r in extra_random {
        ys.push((r.clone(), "random"));
    }
    let mut out = Vec::new();
    for flag in [true, false] {
        for (y, cl) in &ys {
            out.push((flag, y.clone(), *cl));
        }
    }
    out
}

#[derive(Clone, Debug)]
struct Subst {
    idx: usize,
    flag: bool,
    y: B,
}

/// run gadget `g` on `inp` with the given substitutions; returns the Run plus the (den, honest)
/// pairs observed at every isqrt call
fn run_with(g: &Gadget, inp: &Inp, subs: &[Subst]) -> (Run, Vec<(B, bool, B)>) {
    let seen: Arc<Mutex<Vec<(B, bool, B)>>> = Arc::new(Mutex::new(Vec::new()));
    let seen2 = seen.clone();
    let subs2: Vec<Subst> = subs.to_vec();
    set_isqrt_hint_override(Some(Box::new(move |idx, den, flag, y| {
        seen2.lock().unwrap().push((fqb(&den), flag, fqb(&y)));
        for s in &subs2 {
            if s.idx == idx {
                return (s.flag, fq(&s.y));
            }
        }
        (flag, y)
    })));
    let run = execute(g, inp, false);
    set_isqrt_hint_override(None);
    let v = seen.lock().unwrap().clone();
    (run, v)
}

fn classify_hint(den: &B, honest_flag: bool, honest_y: &B, flag: bool, y: &B, ycl: &str) -> String {
    let honest = flag == honest_flag && y == honest_y;
    format!("den{}0:hint=({flag},{}){}", if den == &b(0) { "=" } else { "!=" }, ycl, if honest { ":honest" } else { "" })
}

pub fn run(ctx: &Ctx, rec: &mut Rec) {
    let gs = gadgets();
    let mut zrng = rng_for(ctx.seed, P, 999, 0);
    let zoo = elements_for_gadgets(ctx, &mut zrng, ctx.scale(16, 60));
    for g in gs.iter().filter(|g| g.uses_isqrt) {
        rec.declare_form(g.name);
    }
    for cl in ["hint:y=0", "hint:y^2=1", "hint:y^2=1/den", "hint:y^2=zeta/den", "hint:-honest", "hint:zeta*honest", "hint:random", "den=0", "den!=0"] {
        rec.declare_class(cl);
    }
    hostile_programs(ctx, rec, &zoo);
    // ---------------- (a) isqrt hint substitutions
    let mut work: Vec<(usize, Inp, String)> = Vec::new();
    for (gi, g) in gs.iter().enumerate() {
        if !g.uses_isqrt {
            continue;
        }
        let budget = ctx.scale(200, 900);
        for (inp, cl) in inputs_for(ctx, g, &zoo, &mut zrng, budget) {
            work.push((gi, inp, cl));
        }
    }
    rec.count("gadget_inputs", work.len() as u64);
    par(rec, |w, n, rec| {
        let mut rng = rng_for(ctx.seed, P, w, 1);
        for (i, (gi, inp, class)) in work.iter().enumerate() {
            if i % n != w {
                continue;
            }
            let g = &gs[*gi];
            let inp2 = inp.clone();
            let native = match guarded(|| (g.native)(&inp2)) {
                Ok(nv) => nv,
                Err(_) => continue,
            };
            // honest run: how many isqrt calls, with which den
            let honest = guarded(|| {
                let (run, seen) = run_with(g, &inp2, &[]);
                (run.satisfied, seen, isqrt_calls())
            });
            let (_hsat, seen, _calls) = match honest {
                Ok(x) => x,
                Err(_) => {
                    rec.count("honest synthesis aborted (natively-invalid input)", 1);
                    // still try the substitutions below with what we know: none
                    (None, Vec::new(), 0)
                }
            };
            rec.count("isqrt_call_sites_seen", seen.len() as u64);
            let randoms: Vec<B> = (0..ctx.scale(2, 4)).map(|_| rand_below(&mut rng, &ctx.c.f.p)).collect();
            // single substitutions at every call index
            let mut plans: Vec<(Vec<Subst>, String, String)> = Vec::new();
            for (idx, (den, hflag, hy)) in seen.iter().enumerate() {
                for (flag, y, ycl) in candidates(ctx, den, hy, &randoms) {
                    let desc = classify_hint(den, *hflag, hy, flag, &y, ycl);
                    plans.push((vec![Subst { idx, flag, y }], format!("isqrt#{idx}:{desc}"), ycl.to_string()));
                }
            }
            // all combinations for gadgets with 2..=3 calls (pairs of satisfying-capable values only)
            if seen.len() >= 2 && seen.len() <= 3 && ctx.tier_thorough {
                let c0 = candidates(ctx, &seen[0].0, &seen[0].2, &[]);
                let c1 = candidates(ctx, &seen[1].0, &seen[1].2, &[]);
                for (f0, y0, l0) in &c0 {
                    for (f1, y1, l1) in &c1 {
                        plans.push((vec![Subst { idx: 0, flag: *f0, y: y0.clone() }, Subst { idx: 1, flag: *f1, y: y1.clone() }], format!("isqrt#0:({f0},{l0})+isqrt#1:({f1},{l1})"), "combo".into()));
                    }
                }
            }
            for (subs, desc, ycl) in plans {
                rec.form(g.name);
                rec.class(&format!("hint:{ycl}"));
                if let Some(s0) = subs.first() {
                    rec.class(if seen[s0.idx].0 == b(0) { "den=0" } else { "den!=0" });
                }
                rec.eval(&(g.name, format!("{:?}", inp_json(inp)), desc.clone(), subs.iter().map(|s| s.y.to_bytes_le()).collect::<Vec<_>>()), false);
                rec.count("hints_tried", 1);
                let inp3 = inp.clone();
                let subs3 = subs.clone();
                let res = guarded(|| {
                    let (run, _) = run_with(g, &inp3, &subs3);
                    (run.synth_ok, run.satisfied, run.out)
                });
                set_isqrt_hint_override(None);
                let (ok, sat, out) = match res {
                    Ok(r) => r,
                    Err(_) => {
                        rec.count("synthesis aborted under substituted hint (no satisfied system)", 1);
                        continue;
                    }
                };
                if !(ok && sat == Some(true)) {
                    rec.count("hints_unsatisfied", 1);
                    continue;
                }
                rec.count("hints_satisfied", 1);
                let detail = json!({"gadget": g.name, "input": inp_json(inp), "input_class": class, "substitution": desc,
                    "hint": subs.iter().map(|s| json!({"call": s.idx, "was_square": s.flag, "y": hexs(&s.y)})).collect::<Vec<_>>()});
                match &native {
                    None => {
                        // One root cause, many wrappers: every gadget that decodes the encoding s = q-1 hits
                        // isqrt with den = 0. That family is identified by the *input and hint*, not by the
                        // wrapping gadget, so that the known finding is one signature and anything else
                        // (another input class, another hint class, den != 0) stays a distinct violation.
                        // A joint substitution belongs to the same family when every substituted site is either the
                        // den = 0 site under the hint (true, y^2 = 1) or a den != 0 site left at a value the honest
                        // prover could have used (the honest root or its negative): the second component changes nothing.
                        let fld = &ctx.c.f;
                        let known_combo = subs.len() > 1
                            && subs.iter().any(|s| seen[s.idx].0 == b(0))
                            && subs.iter().all(|s| {
                                let (den, hflag, hy) = &seen[s.idx];
                                if den == &b(0) { s.flag && fld.sq(&s.y) == b(1) } else { s.flag == *hflag && (&s.y == hy || s.y == fld.neg(hy)) }
                            });
                        let sig = if class.split('|').any(|c| c == "s=q-1") && ((desc.contains("den=0:hint=(true,y^2=1)") && !desc.contains('+')) || known_combo) {
                            format!("{P}:satisfied-but-native-rejects:input-encoding=s=q-1:isqrt:den=0:hint=(true,y^2=1)")
                        } else {
                            format!("{P}:satisfied-but-native-rejects:site={}:input={}:{}", g.name, class, desc)
                        };
                        rec.count(&format!("known-family witnesses at site `{}`", g.name), if sig.contains("input-encoding=s=q-1") { 1 } else { 0 });
                        rec.violation(sig,
                            format!("gadget `{}` is SATISFIED under a substituted prover hint although the native operation rejects the input ({class}); substitution {desc}", g.name), detail);
                    }
                    Some(wv) => match out {
                        Some(Ok(o)) => {
                            if let Err(why) = out_matches(&ctx.c, &o, wv) {
                                rec.violation(format!("{P}:wrong-output-under-hint:site={}:{}", g.name, desc),
                                    format!("gadget `{}` is satisfied under a substituted hint but its output differs from the native result: {why}", g.name), detail);
                            } else {
                                rec.count("hints_satisfied_output_preserved", 1);
                            }
                        }
                        Some(Err(e)) => rec.violation(format!("{P}:unreadable-output-under-hint:site={}:{}", g.name, desc),
                            format!("gadget `{}` is satisfied under a substituted hint but its output cannot be read: {e}", g.name), detail),
                        None => {}
                    },
                }
                if rec.samples.len() < 4 {
                    rec.sample(json!({"gadget": g.name, "input_class": class, "substitution": desc, "satisfied": true}));
                }
            }
        }
    });

    // ---------------- (b) witnessed coordinates: off-curve / out-of-group / degenerate pairs
    let c = &ctx.c;
    let f = &c.f;
    let i4 = f.sqrt(&f.neg(&b(1))).expect("q = 1 mod 4");
    let t4 = Pt { x: i4.clone(), y: b(0) };
    assert!(c.on_curve(&t4) && !c.in_2e(&t4));
    let alloc_gadgets: Vec<&Gadget> = gs.iter().filter(|g| g.name == "new_witness<Element>" || g.name == "new_witness<AffinePoint>").collect();
    for cl in ["coords:off-curve", "coords:outside-2E", "coords:(0,0)", "coords:(0,-1)", "coords:other-rep", "coords:4-torsion", "coords:valid"] {
        rec.declare_class(cl);
    }
    let mut bad: Vec<(El, &'static str)> = Vec::new();
    {
        let mut rng = rng_for(ctx.seed, P, 998, 0);
        bad.push((from_raw(&b(0), &b(0), &b(1), &b(0)), "coords:(0,0)"));
        bad.push((from_pt(c, &c.t2()), "coords:(0,-1)"));
        bad.push((from_raw(&t4.x, &t4.y, &b(1), &b(0)), "coords:4-torsion"));
        bad.push((from_raw(&f.neg(&t4.x), &t4.y, &b(1), &b(0)), "coords:4-torsion"));
        for e in zoo.iter().take(ctx.scale(100, 300)) {
            let shifted = c.add(&e.m, &t4);
            bad.push((from_pt(c, &shifted), "coords:outside-2E"));
            bad.push((from_pt(c, &c.torque(&e.m)), "coords:other-rep"));
            bad.push((e.l, "coords:valid"));
            let (x, y) = (rand_below(&mut rng, &f.p), rand_below(&mut rng, &f.p));
            bad.push((from_raw(&x, &y, &b(1), &f.mul(&x, &y)), "coords:off-curve"));
            // off the curve but with the ratio x/y of a valid element: (lx, ly) for l = 2, -1/2, random; decaf
            // equality only sees the ratio, so only the curve equation can reject these
            for l in [b(2), f.neg(&f.inv(&b(2)).unwrap()), rand_below(&mut rng, &f.p)] {
                if l == b(0) || l == b(1) || l == f.neg(&b(1)) {
                    continue;
                }
                let (sx, sy) = (f.mul(&l, &e.m.x), f.mul(&l, &e.m.y));
                bad.push((from_raw(&sx, &sy, &b(1), &f.mul(&sx, &sy)), "coords:off-curve"));
            }
            // on-curve x of e with a wrong y, and inconsistent T
            bad.push((from_raw(&e.m.x, &f.add(&e.m.y, &b(1)), &b(1), &f.mul(&e.m.x, &e.m.y)), "coords:off-curve"));
        }
    }
    par(rec, |w, n, rec| {
        for (i, (e, class)) in bad.iter().enumerate() {
            if i % n != w {
                continue;
            }
            for g in &alloc_gadgets {
                rec.form(g.name);
                rec.class(class);
                rec.eval(&(g.name, class, coords(e).0.to_bytes_le(), coords(e).1.to_bytes_le()), false);
                rec.count("coordinate_witnesses_tried", 1);
                let inp = Inp::E(*e);
                let res = guarded(|| {
                    let (run, _) = run_with(g, &inp, &[]);
                    (run.synth_ok, run.satisfied, run.out)
                });
                set_isqrt_hint_override(None);
                let (ok, sat, out) = match res {
                    Ok(r) => r,
                    Err(_) => {
                        rec.count("allocation aborted on invalid coordinates (no satisfied system)", 1);
                        continue;
                    }
                };
                if !(ok && sat == Some(true)) {
                    rec.count("coordinate_witnesses_unsatisfied", 1);
                    rec.count(&format!("unsatisfied with {class}"), 1);
                    if *class == "coords:valid" || *class == "coords:other-rep" || *class == "coords:(0,-1)" {
                        // completeness belongs to C13; only count here
                        rec.count("valid coordinates not satisfied (see C13)", 1);
                    }
                    continue;
                }
                rec.count("coordinate_witnesses_satisfied", 1);
                rec.count(&format!("satisfied with {class}"), 1);
                // satisfied: the returned variable must be a valid group element
                let detail = json!({"gadget": g.name, "coordinates": el_json(e), "class": class});
                match out {
                    Some(Ok(Out::E(o))) => match affine_of(c, &o) {
                        Err(why) => rec.violation(format!("{P}:witnessed-coordinates:invalid-output:{class}"), format!("allocation of {class} is satisfied and returns an invalid value: {why}"), detail),
                        Ok(p) => {
                            if !c.in_2e(&p) {
                                rec.violation(format!("{P}:witnessed-coordinates:output-outside-group:{class}"), format!("allocation of {class} is satisfied and returns a point outside the group"), detail);
                            } else if ["coords:outside-2E", "coords:off-curve", "coords:4-torsion"].contains(class) {
                                rec.violation(format!("{P}:witnessed-coordinates:accepted:{class}"), format!("allocation of {class} coordinates is satisfied"), detail);
                            }
                        }
                    },
                    Some(Ok(_)) => {}
                    Some(Err(er)) => rec.violation(format!("{P}:witnessed-coordinates:unreadable-output:{class}"), format!("allocation of {class} is satisfied but the value cannot be read: {er}"), detail),
                    None => {}
                }
            }
        }
    });
    // ---------------- (d) hostile circuits with an honest prover: one variable of a larger circuit is a
    // lazily decoded *invalid* encoding (witness or public input), surrounded by valid elements in every
    // allocation mode and by padding witnesses (so that variable indices of different kinds coincide);
    // once that variable is forced the system must not be satisfied, whatever else the circuit did before
    // (executed first, see the top of this function: a change that makes synthesis retain memory would otherwise
    // end the run at the memory guard before this part is reached)

    // ---------------- end-to-end impact of the known den = 0 family: with the repository's *pinned*
    // decompression proving key a Groth16 proof that "s = q-1 decodes to P" verifies for arbitrary P
    {
        use ark_groth16::{r1cs_to_qap::LibsnarkReduction, Groth16};
        use ark_snark::SNARK;
        rec.declare_form("pinned decompression circuit under the (true, 1) hint");
        rec.form("pinned decompression circuit under the (true, 1) hint");
        let qm1 = &ctx.c.f.p - b(1);
        let claimed = El::GENERATOR * Fr::from(424242u64);
        let res = guarded(|| -> Result<bool, String> {
            let (pk, vk) = crate::c15::load_keys("decompression")?;
            let circuit = crate::c15::Pinned::Decompression { field_element: fq(&qm1), point: claimed };
            set_isqrt_hint_override(Some(Box::new(|_idx, den, flag, y| if den == Fq::ZERO { (true, Fq::ONE) } else { (flag, y) })));
            let mut prng = rng_for(ctx.seed, "C14-forge", 0, 0);
            let proof = Groth16::<decaf377::Bls12_377, LibsnarkReduction>::prove(&pk, circuit.clone(), &mut prng);
            set_isqrt_hint_override(None);
            let proof = proof.map_err(|e| format!("{e:?}"))?;
            let pvk = Groth16::<decaf377::Bls12_377, LibsnarkReduction>::process_vk(&vk).map_err(|e| format!("{e:?}"))?;
            Groth16::<decaf377::Bls12_377, LibsnarkReduction>::verify_with_processed_vk(&pvk, &circuit.public_inputs(), &proof).map_err(|e| format!("{e:?}"))
        });
        set_isqrt_hint_override(None);
        rec.evals += 1;
        match res {
            Ok(Ok(true)) => {
                rec.count("forged Groth16 proof with the pinned decompression key VERIFIES (known den = 0 family)", 1);
                rec.violation(
                format!("{P}:satisfied-but-native-rejects:input-encoding=s=q-1:isqrt:den=0:hint=(true,y^2=1)"),
                "with the pinned decompression proving key, a Groth16 proof of `the encoding q-1 decodes to 424242*G` VERIFIES under the pinned verifying key (prover hint (true, 1) at den = 0)",
                json!({"circuit": "tests/test_vectors/decompression_{pk,vk}", "witness_encoding": hexs(&qm1), "claimed_public_element": el_json(&claimed)}),
                )
            }
            Ok(Ok(false)) => rec.count("forged pinned-key proof rejected", 1),
            Ok(Err(e)) => rec.count(&format!("forged pinned-key proof could not be produced ({})", e.chars().take(40).collect::<String>()), 1),
            Err(_) => rec.count("forging attempt aborted", 1),
        }
    }
    // ---------------- (c) tamper-and-propagate over every other non-deterministic witness
    crate::tamper::run(ctx, rec);
    rec.check_coverage();
}


fn hostile_programs(ctx: &Ctx, rec: &mut Rec, zoo: &[SE]) {
    use ark_r1cs_std::prelude::*;
    use ark_r1cs_std::R1CSVar;
    use decaf377::r1cs::{ElementVar, FqVar};
    let c = &ctx.c;
    rec.declare_form("hostile program: invalid lazy encoding forced");
    // invalid encodings (the native decoder rejects): negative, non-square discriminant, near-valid rejects.
    // s = q-1 (den = 0) is left out here: with the honest hint it is rejected, and the malicious hint is the
    // known finding handled above.
    let mut invalid: Vec<(B, &'static str)> = Vec::new();
    {
        let mut rng = rng_for(ctx.seed, P, 996, 0);
        for (s, cl) in field_inputs_decode(ctx, &mut rng, 60) {
            if c.decode_spec_fe(&s).is_err() && s != &c.f.p - b(1) {
                invalid.push((s, cl));
            }
        }
    }
    let nprog = ctx.scale(1500, 20_000);
    par(rec, |w, n, rec| {
        let mut rng = rng_for(ctx.seed, P, w, 91);
        for pi in 0..nprog {
            if pi % n != w {
                continue;
            }
            let (bad_s, bad_class) = invalid[rand_range(&mut rng, invalid.len())].clone();
            let n_valid = 1 + rand_range(&mut rng, 3);
            let valid: Vec<(usize, El)> = (0..n_valid).map(|_| (rand_range(&mut rng, 5), zoo[rand_range(&mut rng, zoo.len())].l)).collect();
            let padding = rand_range(&mut rng, 5);
            let bad_as_input = rand_range(&mut rng, 4) == 0;
            let bad_first = rand_range(&mut rng, 3) == 0;
            let force = rand_range(&mut rng, 5);
            let pre_ops = rand_range(&mut rng, 4);
            let pre_touch = rand_range(&mut rng, 5);
            rec.form("hostile program: invalid lazy encoding forced");
            rec.eval(&("hostile-program", pi, ctx.seed), false);
            rec.count("hostile_programs", 1);
            let lbad = fq(&bad_s);
            let valid2 = valid.clone();
            let res = guarded(move || -> Result<Option<bool>, String> {
                let cs = new_cs(false);
                let se = |e: ark_relations::r1cs::SynthesisError| format!("{e:?}");
                let alloc_bad = |cs: &CS| -> Result<ElementVar, ark_relations::r1cs::SynthesisError> {
                    if bad_as_input { AllocVar::<Fq, Fq>::new_input(cs.clone(), || Ok(lbad)) } else { AllocVar::<Fq, Fq>::new_witness(cs.clone(), || Ok(lbad)) }
                };
                let mut bad: Option<ElementVar> = None;
                if bad_first {
                    bad = Some(alloc_bad(&cs).map_err(se)?);
                }
                let mut regs: Vec<ElementVar> = Vec::new();
                for (kind, e) in &valid2 {
                    let e = *e;
                    let v: ElementVar = match kind {
                        0 => raw(&cs, &e).map_err(se)?,
                        1 => ElementVar::new_witness(cs.clone(), || Ok(e)).map_err(se)?,
                        2 => ElementVar::new_input(cs.clone(), || Ok(e)).map_err(se)?,
                        3 => { let enc_f = e.vartime_compress_to_field(); AllocVar::<Fq, Fq>::new_witness(cs.clone(), || Ok(enc_f)).map_err(se)? }
                        _ => { let enc_f = e.vartime_compress_to_field(); AllocVar::<Fq, Fq>::new_input(cs.clone(), || Ok(enc_f)).map_err(se)? }
                    };
                    regs.push(v);
                }
                for k in 0..padding {
                    let _ = FqVar::new_witness(cs.clone(), || Ok(Fq::from(k as u64 + 3))).map_err(se)?;
                }
                // use (and thereby decode) the valid registers before the hostile variable appears
                for k in 0..pre_ops {
                    let i = k % regs.len();
                    match k % 3 {
                        0 => { let _ = regs[i].negate().map_err(se)?; }
                        1 => { let r = regs[i].clone() + regs[(i + 1) % regs.len()].clone(); regs.push(r); }
                        _ => { let _ = regs[i].compress_to_field().map_err(se)?; }
                    }
                }
                let bad = match bad { Some(v) => v, None => alloc_bad(&cs).map_err(se)? };
                // operations that touch the hostile variable *without* decoding it come first in some programs
                // (reading its encoding, cloning it): the order of forcing must not matter
                let bad = match pre_touch {
                    1 => { let _ = bad.compress_to_field().map_err(se)?; bad }
                    2 => { let cl = bad.clone(); let _ = cl.compress_to_field().map_err(se)?; bad }
                    3 => { let _ = bad.compress_to_field().map_err(se)?; bad.clone() }
                    _ => bad,
                };
                // force the decoding of the hostile variable
                let forced: Result<(), ark_relations::r1cs::SynthesisError> = (|| {
                    match force {
                        0 => { let _ = bad.negate()?; }
                        1 => { let _ = bad.clone() + regs[0].clone(); }
                        2 => { let _ = bad.is_eq(&regs[0])?; }
                        3 => { let mut x = regs[0].clone(); x += bad.clone(); }
                        _ => { bad.enforce_equal(&regs[0])?; }
                    }
                    Ok(())
                })();
                if forced.is_err() {
                    return Ok(None); // synthesis refused: nothing was decoded
                }
                Ok(Some(cs.is_satisfied().map_err(se)?))
            });
            let detail = json!({"invalid_encoding": crate::model::hexs(&bad_s), "class": bad_class, "as_public_input": bad_as_input, "allocated_first": bad_first, "padding_witnesses": padding, "valid_registers": valid.iter().map(|(k, _)| *k).collect::<Vec<_>>(), "forced_by": force, "touched_before_forcing": pre_touch});
            match res {
                Err(_) | Ok(Err(_)) | Ok(Ok(None)) => rec.count("hostile programs: synthesis refused / aborted", 1),
                Ok(Ok(Some(false))) => rec.count("hostile programs: unsatisfied (as required)", 1),
                Ok(Ok(Some(true))) => rec.violation(format!("{P}:hostile-program:invalid-encoding-decoded:{bad_class}"),
                    format!("a circuit that decodes the invalid encoding {} ({bad_class}) among valid elements is satisfied with honest hints", crate::model::hexs(&bad_s)), detail),
            }
        }
    });
}
