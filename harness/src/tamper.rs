//! C14, second fault injector: tamper-and-propagate at the R1CS level.
//!
//! The isqrt hook controls one family of prover hints. Every *other* non-deterministic witness
//! (bit decompositions and inverse-or-zero multipliers inside ark-r1cs-std, witnessed encodings
//! and coordinates, selection bits) is reached here: after an honest synthesis the constraint
//! matrices and the assignment are taken from the constraint system, the witnesses are split into
//!   * inputs      — allocated by the harness for the gadget's operands,
//!   * derived     — uniquely determined by constraint propagation from what is known,
//!   * hints       — everything propagation cannot derive (the prover's free choices),
//! then each hint (or a whole run of bit hints) is replaced by a discrete alternative, all derived
//! witnesses are recomputed by propagation, and the oracle asks: is the system still satisfied
//! while the pinned outputs differ from the native result, or while the native operation rejects?
use crate::ad::*;
use crate::c13::{inp_json, inputs_for};
use crate::model::{b, hexs, B};
use crate::mon::{guarded, par, rng_for, Rec};
use crate::r1::*;
use crate::sh::*;
use ark_ff::{Field, One, Zero};
use ark_r1cs_std::prelude::*;
use ark_r1cs_std::R1CSVar;
use ark_relations::r1cs::SynthesisError;
use decaf377::r1cs::FqVar;
use serde_json::json;
use std::cell::RefCell;

const P: &str = "C14";

thread_local! {
    /// witness indices allocated by the harness for gadget operands (not prover-free)
    pub static INPUT_WITS: RefCell<Vec<usize>> = RefCell::new(Vec::new());
}
pub fn note_inputs(from: usize, to: usize) {
    INPUT_WITS.with(|v| v.borrow_mut().extend(from..to));
}

type Row = Vec<(Fq, usize)>;
pub struct Sys {
    pub ninst: usize,
    pub nwit: usize,
    pub a: Vec<Row>,
    pub bm: Vec<Row>,
    pub c: Vec<Row>,
    pub z: Vec<Fq>,
}

impl Sys {
    pub fn from_cs(cs: &CS) -> Option<Sys> {
        cs.finalize();
        let m = cs.to_matrices()?;
        let inner = cs.borrow()?;
        let mut z = inner.instance_assignment.clone();
        z.extend(inner.witness_assignment.iter().cloned());
        Some(Sys { ninst: m.num_instance_variables, nwit: m.num_witness_variables, a: m.a, bm: m.b, c: m.c, z })
    }
    fn lc(row: &Row, z: &[Fq]) -> Fq {
        let mut acc = Fq::ZERO;
        for (k, i) in row {
            acc += *k * z[*i];
        }
        acc
    }
    pub fn ncons(&self) -> usize {
        self.a.len()
    }
    pub fn satisfied(&self, z: &[Fq]) -> bool {
        for i in 0..self.a.len() {
            if Self::lc(&self.a[i], z) * Self::lc(&self.bm[i], z) != Self::lc(&self.c[i], z) {
                return false;
            }
        }
        true
    }
    /// (sum over known terms, unknown terms merged per variable)
    fn split(row: &Row, z: &[Fq], known: &[bool]) -> (Fq, Vec<(Fq, usize)>) {
        let mut acc = Fq::ZERO;
        let mut unk: Vec<(Fq, usize)> = Vec::new();
        for (k, i) in row {
            if known[*i] {
                acc += *k * z[*i];
            } else if let Some(e) = unk.iter_mut().find(|e| e.1 == *i) {
                e.0 += *k;
            } else {
                unk.push((*k, *i));
            }
        }
        unk.retain(|e| !e.0.is_zero());
        (acc, unk)
    }
    /// derive every witness that a single constraint determines uniquely; repeat to a fixed point
    pub fn propagate(&self, z: &mut [Fq], known: &mut [bool]) {
        loop {
            let mut progress = false;
            for i in 0..self.a.len() {
                let (av, au) = Self::split(&self.a[i], z, known);
                let (bv, bu) = Self::split(&self.bm[i], z, known);
                let (cv, cu) = Self::split(&self.c[i], z, known);
                let total = au.len() + bu.len() + cu.len();
                if total != 1 {
                    continue;
                }
                let solved: Option<(usize, Fq)> = if let Some((k, u)) = cu.first() {
                    // A*B = cv + k*z_u
                    k.inverse().map(|ki| (*u, (av * bv - cv) * ki))
                } else if let Some((k, u)) = au.first() {
                    // (av + k z_u) * bv = cv
                    match (bv.inverse(), k.inverse()) {
                        (Some(bi), Some(ki)) => Some((*u, (cv * bi - av) * ki)),
                        _ => None,
                    }
                } else if let Some((k, u)) = bu.first() {
                    match (av.inverse(), k.inverse()) {
                        (Some(ai), Some(ki)) => Some((*u, (cv * ai - bv) * ki)),
                        _ => None,
                    }
                } else {
                    None
                };
                if let Some((u, v)) = solved {
                    z[u] = v;
                    known[u] = true;
                    progress = true;
                }
            }
            if !progress {
                break;
            }
        }
    }
}

/// pin an output field variable to a fresh witness so that it can be read from any assignment;
/// returns the z-index of the pin
fn pin(cs: &CS, v: &FqVar) -> Result<usize, SynthesisError> {
    let val = v.value();
    let idx = cs.num_witness_variables();
    let w = FqVar::new_witness(cs.clone(), || val)?;
    w.enforce_equal(v)?;
    Ok(idx)
}

enum Pinned {
    E(usize, usize),
    F(usize),
    B(usize),
    BF(usize, usize),
    None,
}

fn pin_outputs(cs: &CS, ov: &OutVar) -> Result<Pinned, SynthesisError> {
    Ok(match ov {
        OutVar::E(e) => {
            let (x, y) = e.verif_affine_vars()?;
            Pinned::E(pin(cs, &x)?, pin(cs, &y)?)
        }
        OutVar::F(f) => Pinned::F(pin(cs, f)?),
        OutVar::B(bv) => Pinned::B(pin(cs, &FqVar::from(bv.clone()))?),
        OutVar::BF(bv, y) => Pinned::BF(pin(cs, &FqVar::from(bv.clone()))?, pin(cs, y)?),
        _ => Pinned::None,
    })
}

fn read_pinned(sys: &Sys, z: &[Fq], p: &Pinned) -> Option<Out> {
    let w = |i: usize| z[sys.ninst + i];
    Some(match p {
        Pinned::E(x, y) => Out::E(El::verif_from_xyzt_unchecked(w(*x), w(*y), Fq::ONE, w(*x) * w(*y))),
        Pinned::F(i) => Out::F(w(*i)),
        Pinned::B(i) => Out::B(w(*i) == Fq::ONE),
        Pinned::BF(i, j) => Out::BF(w(*i) == Fq::ONE, w(*j)),
        Pinned::None => return None,
    })
}

struct Tamper {
    kind: &'static str,
    /// (witness index, new value)
    set: Vec<(usize, Fq)>,
    desc: String,
}

pub fn run(ctx: &Ctx, rec: &mut Rec) {
    let gs = gadgets();
    let mut zrng = rng_for(ctx.seed, "C14-tamper", 999, 0);
    let zoo = elements_for_gadgets(ctx, &mut zrng, ctx.scale(8, 40));
    for k in ["isqrt-pair", "bool-flip", "bit-run+p", "bit-run-p", "bit-run-single-flip", "field-neg", "field-zero", "field-one", "field-plus-one", "field-zeta", "field-random", "joint"] {
        rec.declare_class(&format!("tamper:{k}"));
    }
    let mut work: Vec<(usize, Inp, String)> = Vec::new();
    for (gi, g) in gs.iter().enumerate() {
        if g.name.contains("(constant") {
            continue;
        }
        rec.declare_form(&format!("tamper: {}", g.name));
        let budget = if g.kind == "EBits" { ctx.scale(6, 40) } else { ctx.scale(24, 200) };
        for (inp, cl) in inputs_for(ctx, g, &zoo, &mut zrng, budget) {
            work.push((gi, inp, cl));
        }
    }
    rec.count("tamper_gadget_inputs", work.len() as u64);
    let pm = &ctx.c.f.p;
    par(rec, |w, n, rec| {
        let mut rng = rng_for(ctx.seed, "C14-tamper", w, 1);
        for (i, (gi, inp, class)) in work.iter().enumerate() {
            if i % n != w {
                continue;
            }
            let g = &gs[*gi];
            let form = format!("tamper: {}", g.name);
            let inp2 = inp.clone();
            let native = match guarded(|| (g.native)(&inp2)) {
                Ok(nv) => nv,
                Err(_) => continue,
            };
            // honest synthesis with pinned outputs
            rec.form(&form);
            // witness indices of every isqrt hint pair (was_square, y) and the denominator it saw
            let isqrt_sites: std::sync::Arc<std::sync::Mutex<Vec<(usize, Fq, Fq)>>> = Default::default();
            let sites2 = isqrt_sites.clone();
            let built = guarded(|| -> Result<(Sys, Pinned, Vec<usize>, CS), String> {
                INPUT_WITS.with(|v| v.borrow_mut().clear());
                let cs = new_cs(false);
                let cs_obs = cs.clone();
                decaf377::r1cs::verif_hooks::set_isqrt_hint_override(Some(Box::new(move |_idx, den, flag, y| {
                    sites2.lock().unwrap().push((cs_obs.num_witness_variables(), den, y));
                    (flag, y)
                })));
                let r = (g.run)(&cs, &inp2);
                decaf377::r1cs::verif_hooks::set_isqrt_hint_override(None);
                let ov = r.map_err(|e| format!("{e:?}"))?;
                let pinned = pin_outputs(&cs, &ov).map_err(|e| format!("{e:?}"))?;
                let inputs = INPUT_WITS.with(|v| v.borrow().clone());
                let sys = Sys::from_cs(&cs).ok_or("no matrices")?;
                Ok((sys, pinned, inputs, cs))
            });
            let (sys, pinned, inputs, cs) = match built {
                Ok(Ok(x)) => x,
                _ => {
                    rec.count("tamper: synthesis aborted (natively-invalid input)", 1);
                    continue;
                }
            };
            let honest = sys.z.clone();
            let honest_sat = sys.satisfied(&honest);
            // classify witnesses
            let nz = honest.len();
            let mut known = vec![false; nz];
            for k in known.iter_mut().take(sys.ninst) {
                *k = true;
            }
            for wi in &inputs {
                known[sys.ninst + wi] = true;
            }
            let base_known = known.clone();
            let mut z = honest.clone();
            let mut hints: Vec<usize> = Vec::new();
            sys.propagate(&mut z, &mut known);
            while let Some(u) = (sys.ninst..nz).find(|u| !known[*u]) {
                hints.push(u);
                known[u] = true;
                z[u] = honest[u];
                sys.propagate(&mut z, &mut known);
            }
            if honest_sat && z != honest {
                // the re-derivation must reproduce the honest assignment, otherwise the solver is off
                rec.inconclusive(format!("tamper engine: propagation does not reproduce the honest assignment for `{}`", g.name));
                continue;
            }
            rec.count("tamper: hint witnesses identified", hints.len() as u64);
            rec.count("tamper: derived witnesses", (nz - sys.ninst - inputs.len() - hints.len()) as u64);
            // ---- build the tampers
            let mut tampers: Vec<Tamper> = Vec::new();
            let is_bool = |u: usize| honest[u].is_zero() || honest[u].is_one();
            // maximal runs of consecutive boolean hints
            let mut runs: Vec<(usize, usize)> = Vec::new(); // (position in hints, length)
            let mut k = 0;
            while k < hints.len() {
                let mut l = 0;
                while k + l < hints.len() && is_bool(hints[k + l]) && (l == 0 || hints[k + l] == hints[k + l - 1] + 1) {
                    l += 1;
                }
                if l >= 200 {
                    runs.push((k, l));
                    k += l;
                } else {
                    k += l.max(1);
                }
            }
            let in_run = |pos: usize| runs.iter().any(|(s, l)| pos >= *s && pos < s + l);
            for (s, l) in &runs {
                let bits: Vec<bool> = (0..*l).map(|j| honest[hints[s + j]].is_one()).collect();
                let mut v = b(0);
                for (j, bit) in bits.iter().enumerate() {
                    if *bit {
                        v |= b(1) << j;
                    }
                }
                // the top bit(s) of a decomposition are usually *derived* (from the packing constraint), so
                // the alternative representatives v +- p are presented through their low l bits and
                // propagation recomputes the rest
                let cap = b(1) << *l;
                let alts: Vec<(&'static str, B)> = vec![("bit-run+p", (&v + pm) % &cap), ("bit-run-p", (&v + &cap - (pm % &cap)) % &cap)];
                for (kind, nv) in alts {
                    let set = (0..*l).map(|j| (hints[s + j], if nv.bit(j as u64) { Fq::ONE } else { Fq::ZERO })).collect();
                    tampers.push(Tamper { kind, set, desc: format!("{kind} on a {l}-bit decomposition of {}", hexs(&v)) });
                }
                for j in [0usize, 1, l - 1, l - 2, crate::zoo::rand_range(&mut rng, *l)] {
                    let u = hints[s + j];
                    tampers.push(Tamper { kind: "bit-run-single-flip", set: vec![(u, if honest[u].is_one() { Fq::ZERO } else { Fq::ONE })], desc: format!("flip bit {j} of a {l}-bit decomposition") });
                }
            }
            // bit decompositions read off the *packing* linear combinations (a row with >= 200 terms whose coefficients
            // are +-2^j on distinct witnesses): exact bit positions whichever of the bits are hints and whichever are
            // derived or fixed by other constraints. The other integer representatives v +- p of the packed residue are
            // presented on the hint members; propagation fills in the rest.
            {
                let mut pow2: std::collections::HashMap<Vec<u8>, usize> = Default::default();
                let mut x = Fq::ONE;
                for j in 0..256usize {
                    pow2.insert(fqb(&x).to_bytes_le(), j);
                    x = x + x;
                }
                let mut seen_sets: std::collections::HashSet<Vec<usize>> = Default::default();
                for rows in [&sys.a, &sys.bm, &sys.c] {
                    for row in rows.iter() {
                        if row.len() < 200 {
                            continue;
                        }
                        for sign in [Fq::ONE, -Fq::ONE] {
                            let mut by_pos: std::collections::BTreeMap<usize, usize> = Default::default();
                            for (k, var) in row {
                                if *var < sys.ninst {
                                    continue;
                                }
                                if let Some(j) = pow2.get(&fqb(&(*k * sign)).to_bytes_le()) {
                                    if honest[*var].is_zero() || honest[*var].is_one() {
                                        by_pos.entry(*j).or_insert(*var);
                                    }
                                }
                            }
                            let l = by_pos.len();
                            if l < 200 || by_pos.keys().next_back().copied().unwrap_or(0) != l - 1 {
                                continue;
                            }
                            let vars: Vec<usize> = by_pos.values().copied().collect();
                            if !seen_sets.insert(vars.clone()) {
                                continue;
                            }
                            let mut v = b(0);
                            for (j, u) in vars.iter().enumerate() {
                                if honest[*u].is_one() {
                                    v |= b(1) << j;
                                }
                            }
                            let cap = b(1) << l;
                            let mut alts: Vec<(&'static str, B)> = Vec::new();
                            if &v + pm < cap {
                                alts.push(("bit-run+p", &v + pm));
                            }
                            if &v >= pm {
                                alts.push(("bit-run-p", &v - pm));
                            }
                            // when v is the canonical residue and v + p overflows the run, the residue of v + p
                            // modulo 2^l is still worth presenting (the top bits may be derived elsewhere)
                            alts.push(("bit-run+p", (&v + pm) % &cap));
                            for (kind, nv) in alts {
                                if nv == v {
                                    continue;
                                }
                                let set: Vec<(usize, Fq)> = vars.iter().enumerate().filter(|(_, u)| hints.contains(u)).map(|(j, u)| (*u, if nv.bit(j as u64) { Fq::ONE } else { Fq::ZERO })).collect();
                                if !set.is_empty() {
                                    tampers.push(Tamper { kind, set, desc: format!("{kind} on the {l}-bit decomposition (read off its packing constraint) of {}: bits of {}", hexs(&v), hexs(&nv)) });
                                }
                            }
                        }
                    }
                }
            }
            for (pos, u) in hints.iter().enumerate() {
                if in_run(pos) {
                    continue;
                }
                let hv = honest[*u];
                if is_bool(*u) {
                    tampers.push(Tamper { kind: "bool-flip", set: vec![(*u, if hv.is_one() { Fq::ZERO } else { Fq::ONE })], desc: format!("flip boolean hint #{pos}") });
                }
                let rnd = fq(&crate::zoo::rand_below(&mut rng, pm));
                for (kind, nv) in [("field-neg", -hv), ("field-zero", Fq::ZERO), ("field-one", Fq::ONE), ("field-plus-one", hv + Fq::ONE), ("field-zeta", hv * decaf377::ZETA), ("field-random", rnd)] {
                    if nv != hv {
                        tampers.push(Tamper { kind, set: vec![(*u, nv)], desc: format!("{kind} on hint #{pos} (honest value {})", hexs(&fqb(&hv))) });
                    }
                }
            }
            // joint substitutions: a gadget with a handful of scalar hints gets the full cross product of a small
            // set of alternatives per hint (booleans: both values; field hints: honest, 0, 1, -1, -honest); with up
            // to twelve such hints all pairs are combined. A relation between hints that the constraints fail to
            // pin down (an is-zero flag together with its inverse hint, a flag together with its root) needs several
            // hints to move at once.
            {
                let scalar: Vec<usize> = hints.iter().enumerate().filter(|(pos, _)| !in_run(*pos)).map(|(_, u)| *u).collect();
                let alts_of = |u: usize| -> Vec<Fq> {
                    let hv = honest[u];
                    let mut a = if is_bool(u) { vec![Fq::ZERO, Fq::ONE] } else { vec![hv, Fq::ZERO, Fq::ONE, -Fq::ONE, -hv] };
                    a.dedup();
                    a
                };
                let mut joint: Vec<Vec<(usize, Fq)>> = Vec::new();
                if !scalar.is_empty() && scalar.len() <= 5 && sys.ncons() <= 4000 {
                    let lists: Vec<Vec<Fq>> = scalar.iter().map(|u| alts_of(*u)).collect();
                    let total: usize = lists.iter().map(|l| l.len()).product();
                    for idx in 0..total.min(3200) {
                        let mut k = if total <= 3200 { idx } else { (crate::zoo::rand_range(&mut rng, total)) };
                        let mut set = Vec::new();
                        for (li, l) in lists.iter().enumerate() {
                            let v = l[k % l.len()];
                            k /= l.len();
                            if v != honest[scalar[li]] {
                                set.push((scalar[li], v));
                            }
                        }
                        if set.len() >= 2 {
                            joint.push(set);
                        }
                    }
                } else if scalar.len() <= 12 && sys.ncons() <= 4000 {
                    for i1 in 0..scalar.len() {
                        for i2 in (i1 + 1)..scalar.len() {
                            for v1 in alts_of(scalar[i1]) {
                                for v2 in alts_of(scalar[i2]) {
                                    if v1 != honest[scalar[i1]] && v2 != honest[scalar[i2]] {
                                        joint.push(vec![(scalar[i1], v1), (scalar[i2], v2)]);
                                    }
                                }
                            }
                        }
                    }
                }
                for set in joint {
                    let desc = format!("joint change of {} hints: {}", set.len(), set.iter().map(|(u, v)| format!("w{}:={}", u - sys.ninst, hexs(&fqb(v)))).collect::<Vec<_>>().join(", "));
                    tampers.push(Tamper { kind: "joint", set, desc });
                }
            }
            // isqrt hint pairs at the constraint level: the re-synthesis of (a) runs the honest prover
            // code, which panics inside arkworks (`Affine::new` asserts on-curve) as soon as a substituted
            // hint drives an intermediate point off the curve; a malicious prover is not bound by that
            // code, so the same substitutions are replayed here on the executed constraint system
            let sites_now = isqrt_sites.lock().unwrap().clone();
            for (k, (w0, den, hy)) in sites_now.iter().enumerate() {
                if sys.ninst + w0 + 1 >= nz {
                    continue;
                }
                let rnd = [crate::zoo::rand_below(&mut rng, pm)];
                for (flag, y, ycl) in crate::c14::candidates(ctx, &fqb(den), &fqb(hy), &rnd) {
                    tampers.push(Tamper {
                        kind: "isqrt-pair",
                        set: vec![(sys.ninst + w0, if flag { Fq::ONE } else { Fq::ZERO }), (sys.ninst + w0 + 1, fq(&y))],
                        desc: format!("isqrt#{k}:den{}0:hint=({flag},{ycl})", if den.is_zero() { "=" } else { "!=" }),
                    });
                }
            }
            // ---- apply
            for t in tampers {
                rec.form(&form);
                rec.class(&format!("tamper:{}", t.kind));
                rec.eval(&(g.name, format!("{:?}", inp_json(inp)), t.desc.clone()), false);
                rec.count("tampers_tried", 1);
                let mut z2 = honest.clone();
                let mut kn = base_known.clone();
                for h in &hints {
                    kn[*h] = true;
                }
                for (u, v) in &t.set {
                    z2[*u] = *v;
                    kn[*u] = true; // a tampered witness stays as set even when propagation could re-derive it
                }
                sys.propagate(&mut z2, &mut kn);
                if !sys.satisfied(&z2) {
                    rec.count("tampers_unsatisfied", 1);
                    continue;
                }
                // independent confirmation by arkworks' own satisfaction check on the tampered assignment
                {
                    let mut inner = cs.borrow_mut().expect("cs");
                    inner.witness_assignment = z2[sys.ninst..].to_vec();
                }
                let ark_says = cs.is_satisfied().unwrap_or(false);
                {
                    let mut inner = cs.borrow_mut().expect("cs");
                    inner.witness_assignment = honest[sys.ninst..].to_vec();
                }
                if !ark_says {
                    rec.inconclusive(format!("tamper engine: own satisfaction check disagrees with ConstraintSystem::is_satisfied for `{}`", g.name));
                    continue;
                }
                rec.count("tampers_satisfied", 1);
                let detail = json!({"gadget": g.name, "input": inp_json(inp), "input_class": class, "tamper": t.desc, "honest_system_satisfied": honest_sat});
                match &native {
                    None => {
                        // is this the known isqrt family (den = 0, hint ends up as (true, y^2 = 1), input s = q-1)?
                        let sites = isqrt_sites.lock().unwrap().clone();
                        let known_family = class.split('|').any(|c| c == "s=q-1")
                            && sites.iter().any(|(w0, den, _)| {
                                let (wf_, wy) = (sys.ninst + w0, sys.ninst + w0 + 1);
                                // (judged on the final assignment: whichever witnesses were moved, a satisfied decode
                                // of s = q-1 has den = 0 and therefore ends with the hint pair (true, y^2 = 1))
                                den.is_zero() && z2[wf_] == Fq::ONE && z2[wy] * z2[wy] == Fq::ONE
                            });
                        let sig = if known_family {
                            format!("{P}:satisfied-but-native-rejects:input-encoding=s=q-1:isqrt:den=0:hint=(true,y^2=1)")
                        } else {
                            format!("{P}:r1cs-tamper:satisfied-but-native-rejects:{}:{}", g.name, t.kind)
                        };
                        rec.violation(sig, format!("gadget `{}` on a natively-rejected input ({class}) is SATISFIED by a tampered witness assignment: {}", g.name, t.desc), detail)
                    }
                    Some(wv) => match read_pinned(&sys, &z2, &pinned) {
                        None => rec.count("tampers_satisfied_no_pinned_output", 1),
                        Some(o) => {
                            let ok = match (&o, wv) {
                                // a tampered assignment may legitimately denote the other coset member
                                _ => out_matches(&ctx.c, &o, wv).is_ok(),
                            };
                            if ok {
                                rec.count("tampers_satisfied_output_preserved", 1);
                            } else if g.name == "isqrt" && isqrt_sites.lock().unwrap().iter().any(|(w0, den, _)| den.is_zero() && z2[sys.ninst + w0] == Fq::ONE && z2[sys.ninst + w0 + 1] * z2[sys.ninst + w0 + 1] == Fq::ONE) {
                                // the primitive itself: the other known signature of the den = 0 family
                                rec.violation(format!("{P}:wrong-output-under-hint:site=isqrt:isqrt#0:den=0:hint=(true,y^2=1)"),
                                    format!("isqrt(0) under the hint (true, +-1), replayed on the executed constraint system: {}", t.desc), detail);
                            } else {
                                rec.violation(format!("{P}:r1cs-tamper:wrong-output:{}:{}", g.name, t.kind),
                                    format!("gadget `{}` stays satisfied under a tampered witness assignment but its output changes: {}", g.name, t.desc), detail);
                            }
                        }
                    },
                }
            }
            if i < 3 {
                rec.sample(json!({"gadget": g.name, "input_class": class, "witnesses": nz - sys.ninst, "inputs": inputs.len(), "hints": hints.len(), "bit_runs": runs.len()}));
            }
        }
    });
}
