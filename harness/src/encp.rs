//! C01 (round trips), C02 (decoding = specification decoder), C03 (encoding depends only on
//! the group element and equals the specified encoding).
use crate::ad::*;
use crate::c04::{enc_quiet, run_program};
use crate::model::{b, from_le, hexs, to_le, SpecErr, B};
use crate::mon::{guarded, hx, par, rng_for, Rec};
use crate::sh::*;
use crate::zoo::{rand_below, rand_bytes, rand_range};
use rand_core::RngCore;
use serde_json::json;
use std::convert::TryFrom;

/// Structured 32-byte strings for the decoders: for every valid s: s itself, s+q, s+2q (when
/// they fit), q-s, all 256 single-bit flips, top-three-bit variants; boundary values.
pub fn decode_strings(ctx: &Ctx, rng: &mut impl RngCore, nvalid: usize, nrand: usize, flips: bool) -> Vec<(Vec<u8>, &'static str)> {
    let c = &ctx.c;
    let q = &c.f.p;
    let top = b(1) << 256;
    let mut out: Vec<(Vec<u8>, &'static str)> = Vec::new();
    let mut valid: Vec<B> = crate::zoo::smallest_valid_s(c, 50);
    // encodings of zoo elements
    let mut r2 = rng_for(ctx.seed, "decode-strings", 0, 0);
    for m in crate::zoo::element_zoo(c, &mut r2, nvalid) {
        valid.push(c.encode_spec_fe(&m.pt).unwrap());
    }
    for (i, s) in valid.iter().enumerate() {
        out.push((to_le(s, 32), "valid"));
        let mut k = s + q;
        while k < top {
            out.push((to_le(&k, 32), "alias s+kq"));
            k += q;
        }
        out.push((to_le(&c.f.neg(s), 32), "q-s"));
        for hi in [0x20u8, 0x40, 0x80, 0xe0, 0xa0] {
            let mut v = to_le(s, 32);
            v[31] |= hi;
            out.push((v, "top-bits"));
        }
        if flips && (i < 60 || i % 7 == 0) {
            for bit in 0..256 {
                let mut v = to_le(s, 32);
                v[bit / 8] ^= 1 << (bit % 8);
                out.push((v, "bit-flip"));
            }
        }
        // neighbours
        out.push((to_le(&(s + b(1)), 32), "s+1"));
        out.push((to_le(&(s + b(2)), 32), "s+2"));
    }
    for v in [q - b(1), q.clone(), q + b(1), q + b(8), b(1) << 253, b(1) << 255, (b(1) << 256) - b(1), b(1), b(2), b(3), (b(1) << 253) - b(1), (q - b(1)) >> 1, (q + b(1)) >> 1] {
        out.push((to_le(&v, 32), "boundary"));
    }
    // threshold-distance sweep around q: canonical values q - delta and aliases q + delta at every
    // distance scale (about 1/7 of the even ones are valid encodings resp. aliases of valid ones)
    for v in crate::zoo::threshold_sweep(q, 251, rng, 2) {
        if v < top {
            let class = if &v >= q { "q+delta" } else { "q-delta" };
            out.push((to_le(&v, 32), class));
            // make it even (non-negative) as well: s and s+q differ in parity, cover both
            let e = if v.bit(0) { &v - b(1) } else { v.clone() };
            out.push((to_le(&e, 32), class));
        }
    }
    // engineered encodings: s for which the value handed to the square root inside the decoder has
    // a chosen 2-primary component (table rows / early exits that uniform strings reach with
    // probability 2^-39 or less). Even exponents give valid encodings, odd ones non-squares.
    {
        let sy = crate::c09::sylow(ctx);
        let targets = crate::c09::structured_exponents(if ctx.tier_thorough { 1 } else { 4 });
        let nthreads = crate::mon::workers();
        let chunks: Vec<Vec<B>> = std::thread::scope(|sc| {
            let hs: Vec<_> = (0..nthreads)
                .map(|w| {
                    let targets = &targets;
                    let sy = &sy;
                    sc.spawn(move || {
                        let mut r = rng_for(ctx.seed, "engineered-decode", w, 0);
                        let mut v = Vec::new();
                        for (i, e) in targets.iter().enumerate() {
                            if i % nthreads != w {
                                continue;
                            }
                            for _try in 0..4 {
                                let ss = crate::eng::decode_s_for_exponent(ctx, sy, e, &mut r);
                                if !ss.is_empty() {
                                    v.extend(ss);
                                    break;
                                }
                            }
                        }
                        v
                    })
                })
                .collect();
            hs.into_iter().map(|h| h.join().expect("join")).collect()
        });
        for s in chunks.into_iter().flatten() {
            out.push((to_le(&s, 32), "engineered-sqrt-exponent"));
            if &(&s + q) < &top {
                out.push((to_le(&(&s + q), 32), "alias s+kq"));
            }
        }
    }
    // near-valid rejects: non-square discriminant, yet the candidate point computed from the
    // returned sqrt(zeta * ratio) lies on the curve (a decoder validating coordinates instead of the
    // squareness flag accepts exactly these); plus their aliases and negations
    for s in crate::eng::decode_nonsquare_oncurve(ctx, rng) {
        out.push((to_le(&s, 32), "nonsquare-candidate-on-curve"));
        out.push((to_le(&c.f.neg(&s), 32), "nonsquare-candidate-on-curve"));
        if &(&s + q) < &top {
            out.push((to_le(&(&s + q), 32), "nonsquare-candidate-on-curve"));
        }
    }
    // special field values as encodings (roots of unity incl. sqrt(-1), zeta-related constants, limb
    // patterns, small integers...): the non-negative representative of every field-zoo member
    for (v, _) in crate::zoo::field_zoo(&c.f) {
        let e = c.f.abs(&v);
        out.push((to_le(&e, 32), "field-zoo value"));
    }
    for v in [c.zeta.clone(), c.f.inv(&c.zeta).unwrap(), c.d.clone(), c.f.neg(&c.d), c.f.sub(&c.a, &c.d), c.f.inv(&b(2)).unwrap(), c.f.sqrt(&c.f.neg(&b(1))).unwrap()] {
        out.push((to_le(&c.f.abs(&v), 32), "field-zoo value"));
        out.push((to_le(&c.f.neg(&c.f.abs(&v)), 32), "field-zoo value"));
        // small multiples and small shifts of the special values (k*sqrt(-1), k*zeta, v +- k ...)
        for k in 2u64..=16 {
            out.push((to_le(&c.f.abs(&c.f.mul(&b(k), &v)), 32), "field-zoo value"));
            out.push((to_le(&c.f.abs(&c.f.add(&v, &b(k))), 32), "field-zoo value"));
            if let Some(ki) = c.f.inv(&b(k)) {
                out.push((to_le(&c.f.abs(&c.f.mul(&ki, &v)), 32), "field-zoo value"));
            }
        }
    }
    // encodings for which an *intermediate* of the decoder (u1, u2) is a structured value: zero / all-ones low
    // limbs, 2-adic relations with q (limb-level routines applied to intermediates meet their special cases)
    for s in crate::eng::decode_s_for_intermediates(ctx, rng) {
        out.push((to_le(&s, 32), "engineered-intermediate"));
    }
    for s in crate::eng::decode_s_coinciding_intermediates(ctx) {
        out.push((to_le(&s, 32), "engineered-intermediate"));
    }
    // aliases s + q of *valid* encodings s that a folded word comparison confuses with s (the construction
    // yields many aliases; those whose s is a valid encoding and that keep the top three bits clear are kept)
    for w in [64usize, 32] {
        let cands = crate::zoo::fold_collision_aliases(q, 32, w, rng, 600, 6000);
        let mut kept = 0;
        for a in cands {
            let s = &a - q;
            if a.bits() <= 253 && !s.bit(0) && c.decode_spec_fe(&s).is_ok() {
                out.push((to_le(&a, 32), "fold-collision alias"));
                kept += 1;
                if kept >= 12 {
                    break;
                }
            }
        }
    }
    for _ in 0..nrand {
        out.push((rand_bytes(rng, 32), "random"));
        let mut v = rand_bytes(rng, 32);
        v[31] &= 0x1f;
        v[0] &= 0xfe;
        out.push((v, "random-masked-even"));
    }
    out
}

// ---------------------------------------------------------------------------------------------
// C01
// ---------------------------------------------------------------------------------------------
fn c01_forward(ctx: &Ctx, rec: &mut Rec, e: &SE) {
    const P: &str = "C01";
    let c = &ctx.c;
    rec.eval(&("fwd", e.key(), coords(&e.l).2.to_bytes_le()), e.m.x == b(0));
    rec.class(&format!("fwd:{}", e.class));
    let l = e.l;
    let res = guarded(|| {
        let bytes = enc(&l);
        let fe = l.vartime_compress_to_field().to_bytes_le();
        let d = dec(&bytes);
        (bytes, fe, d.map(|d| (d == l, l == d, d)))
    });
    match res {
        Err(p) => rec.violation(format!("{P}:forward:panic"), format!("encode/decode panicked: {p}"), json!({"element": el_json(&e.l), "class": e.class})),
        Ok((bytes, fe, d)) => {
            rec.event(format!("encode {} -> {}", e.class, hx(&bytes)));
            if fe != bytes {
                rec.violation(format!("{P}:forward:field-form-differs"), "vartime_compress_to_field().to_bytes() != vartime_compress()", json!({"element": el_json(&e.l), "bytes": hx(&bytes), "field": hx(&fe)}));
            }
            // the stream decoders, fed by readers that deliver the encoding in pieces, are decoders too
            #[cfg(feature = "ark")]
            {
                use ark_ec::CurveGroup;
                use ark_serialize::{CanonicalDeserialize, CanonicalSerialize};
                use ark_std::io::Read;
                type Af = <El as CurveGroup>::Affine;
                let cut = 1 + (bytes[0] as usize + bytes[7] as usize) % 31;
                let step = 1 + bytes[1] as usize % 9;
                let b2 = bytes;
                let res = guarded(move || {
                    let a = El::deserialize_compressed((&b2[..cut]).chain(&b2[cut..])).map(|d| d == l);
                    let t = Af::deserialize_compressed(crate::fld::Trickle { data: &b2, pos: 0, step }).map(|d| El::from(d) == l);
                    // a vector of elements written and read back through a reader with small reads
                    let v = vec![l, -l, l + l];
                    let mut buf = Vec::new();
                    v.serialize_compressed(&mut buf).map_err(|_| ark_serialize::SerializationError::InvalidData)?;
                    let mut rd = crate::fld::Trickle { data: &buf[8..], pos: 0, step: step + 20 };
                    let mut back = Vec::new();
                    for _ in 0..3 {
                        back.push(El::deserialize_compressed(&mut rd)?);
                    }
                    Ok::<_, ark_serialize::SerializationError>((a?, t?, back == v))
                });
                rec.count("stream_roundtrips", 1);
                match res {
                    Ok(Ok((true, true, true))) => {}
                    other => rec.violation(format!("{P}:forward:stream-decoders"), format!("stream decoding of encode(E) through readers with partial progress (chained at {cut}, {step} bytes per read, vector of three) does not give back E: {other:?}"), json!({"element": el_json(&e.l), "bytes": hx(&bytes)})),
                }
            }
            // bijection: E and -E have different encodings and decode to unequal elements (unless E = -E)
            {
                let is_id = e.m.x == b(0);
                match guarded(move || { let nb = enc(&-l); dec(&nb).map(|n| (nb, dec(&bytes).map(|d| (d == n, n == d)))) }) {
                    Ok(Ok((nb, Ok((e1, e2))))) => {
                        if (nb == bytes) != is_id || e1 != is_id || e2 != is_id {
                            rec.violation(format!("{P}:forward:bijection"), format!("E and -E: encodings equal = {}, decoded values == : ({e1},{e2}), but E {} the identity", nb == bytes, if is_id { "is" } else { "is not" }), json!({"element": el_json(&e.l), "bytes": hx(&bytes), "neg_bytes": hx(&nb)}));
                        }
                    }
                    _ => {}
                }
            }
            match d {
                Err(_) => rec.violation(format!("{P}:forward:encoding-rejected"), format!("decode(encode(E)) failed for a valid element ({})", e.class), json!({"element": el_json(&e.l), "bytes": hx(&bytes), "model": pt_json(&e.m)})),
                Ok((eq1, eq2, d)) => {
                    if !eq1 || !eq2 {
                        rec.violation(format!("{P}:forward:not-equal"), "decode(encode(E)) != E by the library's ==", json!({"element": el_json(&e.l), "bytes": hx(&bytes), "decoded": el_json(&d)}));
                    }
                    // referee: the decoded value must denote the model element
                    if let Err(why) = denotes(c, &d, &e.m) {
                        rec.violation(format!("{P}:forward:wrong-element"), format!("decode(encode(E)) denotes another element: {why}"), json!({"element": el_json(&e.l), "bytes": hx(&bytes), "decoded": el_json(&d)}));
                    }
                }
            }
        }
    }
}

fn c01_backward(ctx: &Ctx, rec: &mut Rec, s: &[u8], class: &str) {
    const P: &str = "C01";
    let c = &ctx.c;
    let a = arr32(s);
    rec.class(&format!("bwd:{class}"));
    let res = guarded(|| dec(&a).map(|e| (enc(&e), e)));
    let spec = c.decode_spec(s);
    rec.eval(&("bwd", s.to_vec()), spec.is_err());
    match res {
        Err(p) => rec.violation(format!("{P}:backward:panic"), format!("decode/encode panicked: {p}"), json!({"bytes": hx(s)})),
        Ok(Err(_)) => {
            rec.count("bwd_rejected", 1);
            // the specification decodes this string: it is the encoding of a group element, so the
            // forward direction must hold for that element (present it through the coordinate hook)
            if let Ok(m) = &spec {
                rec.count("bwd_rejected_but_spec_valid", 1);
                let se = SE { l: from_pt(c, m), m: m.clone(), class: "spec-decoded" };
                c01_forward(ctx, rec, &se);
            }
        }
        Ok(Ok((bytes, e))) => {
            rec.count("bwd_accepted", 1);
            if bytes != a {
                rec.violation(format!("{P}:backward:reencode-differs"), format!("decode accepted {} but re-encoding gives {}", hx(s), hx(&bytes)), json!({"bytes": hx(s), "reencoded": hx(&bytes), "class": class, "decoded": el_json(&e)}));
            }
            if let Ok(m) = &spec {
                if let Err(why) = denotes(c, &e, m) {
                    rec.violation(format!("{P}:backward:wrong-element"), format!("decoded element differs from decodeSpec: {why}"), json!({"bytes": hx(s), "decoded": el_json(&e)}));
                }
            }
        }
    }
}

pub fn run_c01(ctx: &Ctx, rec: &mut Rec) {
    const P: &str = "C01";
    let mut zrng = rng_for(ctx.seed, P, 999, 0);
    let zoo = shadow_zoo(ctx, &mut zrng, ctx.scale(80, 500));
    for cl in ["identity", "identity'", "G", "other-rep", "rescaled", "elligator", "random-decode", "kG", "program-register"] {
        rec.declare_class(&format!("fwd:{cl}"));
    }
    for cl in ["valid", "alias s+kq", "q-s", "bit-flip", "boundary", "random", "produced-encoding", "engineered-sqrt-exponent", "q-delta", "nonsquare-candidate-on-curve", "field-zoo value", "engineered-intermediate"] {
        rec.declare_class(&format!("bwd:{cl}"));
    }
    // forward on the zoo (all presentations) and on program registers
    par(rec, |w, n, rec| {
        let mut rng = rng_for(ctx.seed, P, w, 1);
        for (i, e) in zoo.iter().enumerate() {
            if i % n == w {
                c01_forward(ctx, rec, e);
                let bytes = enc_quiet(&e.l);
                c01_backward(ctx, rec, &bytes, "produced-encoding");
                if i < 3 {
                    rec.sample(json!({"direction": "forward", "class": e.class, "element": el_json(&e.l), "encoding": hx(&bytes)}));
                }
            }
        }
        let nprog = ctx.scale(2500, 40000);
        for pi in 0..nprog {
            if pi % n != w {
                continue;
            }
            let len = 4 + rand_range(&mut rng, 30);
            let regs = run_program(ctx, rec, P, &mut rng, &zoo, len, false);
            rec.count("programs", 1);
            for r in regs.iter() {
                c01_forward(ctx, rec, r);
            }
        }
    });
    // backward
    let mut srng = rng_for(ctx.seed, P, 999, 2);
    let strings = decode_strings(ctx, &mut srng, ctx.scale(40, 200), ctx.scale(100_000, 2_000_000), true);
    rec.count("strings", strings.len() as u64);
    par(rec, |w, n, rec| {
        for (i, (s, class)) in strings.iter().enumerate() {
            if i % n == w {
                c01_backward(ctx, rec, s, class);
                if i < 2 {
                    rec.sample(json!({"direction": "backward", "class": class, "bytes": hx(s), "decodes": dec(&arr32(s)).is_ok()}));
                }
            }
        }
    });
    // object-lifecycle programs: encode/decode round trip of objects that were deserialised, converted
    // and mutated in place
    par(rec, |w, n, rec| crate::life::programs(ctx, rec, P, crate::life::RT, w, n, ctx.scale(600, 12000), &zoo));
    rec.check_coverage();
}

// ---------------------------------------------------------------------------------------------
// C02
// ---------------------------------------------------------------------------------------------
#[derive(Debug, Clone, PartialEq)]
pub enum Verdict {
    Ok([u8; 32], El2),
    InvalidEncoding,
    InvalidSliceLength,
    OtherError(String),
}
/// El is not Debug/PartialEq-friendly for our purposes; keep coordinates
#[derive(Debug, Clone, PartialEq)]
pub struct El2(pub Vec<u8>, pub Vec<u8>, pub Vec<u8>, pub Vec<u8>);

fn v_of(r: Result<El, EncodingError>) -> (Verdict, Option<El>) {
    match r {
        Ok(e) => {
            let (x, y, z, t) = coords(&e);
            (Verdict::Ok(enc(&e), El2(x.to_bytes_le(), y.to_bytes_le(), z.to_bytes_le(), t.to_bytes_le())), Some(e))
        }
        Err(EncodingError::InvalidEncoding) => (Verdict::InvalidEncoding, None),
        Err(EncodingError::InvalidSliceLength) => (Verdict::InvalidSliceLength, None),
    }
}

pub struct EntryPoint {
    pub name: &'static str,
    /// works on slices of any length
    pub any_len: bool,
    /// stream reader semantics (reads first 32 bytes, short input is an io error)
    pub stream: bool,
    pub f: fn(&[u8]) -> (Verdict, Option<El>),
}

#[allow(deprecated)]
pub fn entry_points() -> Vec<EntryPoint> {
    let mut v: Vec<EntryPoint> = Vec::new();
    v.push(EntryPoint { name: "Encoding::vartime_decompress", any_len: false, stream: false, f: |s| v_of(Encoding(arr32(s)).vartime_decompress()) });
    v.push(EntryPoint { name: "TryFrom<&[u8]> for Element", any_len: true, stream: false, f: |s| v_of(El::try_from(s)) });
    v.push(EntryPoint { name: "TryFrom<[u8;32]> for Element", any_len: false, stream: false, f: |s| v_of(El::try_from(arr32(s))) });
    v.push(EntryPoint { name: "TryFrom<Encoding> for Element", any_len: false, stream: false, f: |s| v_of(El::try_from(Encoding(arr32(s)))) });
    v.push(EntryPoint { name: "TryFrom<&Encoding> for Element", any_len: false, stream: false, f: |s| v_of(El::try_from(&Encoding(arr32(s)))) });
    v.push(EntryPoint { name: "TryFrom<&[u8]> for Encoding + decompress", any_len: true, stream: false, f: |s| match Encoding::try_from(s) {
        Ok(e) => v_of(e.vartime_decompress()),
        Err(e) => v_of(Err(e)),
    } });
    v.push(EntryPoint { name: "From<[u8;32]> for Encoding + decompress", any_len: false, stream: false, f: |s| v_of(Encoding::from(arr32(s)).vartime_decompress()) });
    #[cfg(feature = "ark")]
    {
        use ark_ec::CurveGroup;
        use ark_serialize::{CanonicalDeserialize, Compress, SerializationError, Validate};
        type Af = <El as CurveGroup>::Affine;
        fn ser(r: Result<El, SerializationError>) -> (Verdict, Option<El>) {
            match r {
                Ok(e) => v_of(Ok(e)),
                Err(SerializationError::InvalidData) => (Verdict::InvalidEncoding, None),
                Err(SerializationError::IoError(_)) => (Verdict::InvalidSliceLength, None),
                Err(e) => (Verdict::OtherError(format!("{e:?}")), None),
            }
        }
        v.push(EntryPoint { name: "Encoding::decompress (deprecated)", any_len: false, stream: false, f: |s| v_of(Encoding(arr32(s)).decompress()) });
        v.push(EntryPoint { name: "Element::deserialize_compressed", any_len: true, stream: true, f: |s| ser(El::deserialize_compressed(s)) });
        v.push(EntryPoint { name: "Element::deserialize_with_mode(Yes,Yes)", any_len: true, stream: true, f: |s| ser(El::deserialize_with_mode(s, Compress::Yes, Validate::Yes)) });
        v.push(EntryPoint { name: "AffinePoint::deserialize_compressed", any_len: true, stream: true, f: |s| ser(Af::deserialize_compressed(s).map(|a| a.into())) });
        v.push(EntryPoint { name: "Element::deserialize_compressed (reader delivering 1..7 bytes per read)", any_len: true, stream: true, f: |s| ser(El::deserialize_compressed(crate::fld::Trickle { data: s, pos: 0, step: 1 + s.len() % 7 })) });
        v.push(EntryPoint { name: "AffinePoint::deserialize_compressed (chained readers)", any_len: true, stream: true, f: |s| {
            use ark_std::io::Read;
            let cut = s.len() / 2;
            ser(Af::deserialize_compressed((&s[..cut]).chain(&s[cut..])).map(|a| a.into()))
        } });
        v.push(EntryPoint { name: "Encoding::deserialize_compressed + decompress", any_len: true, stream: true, f: |s| match Encoding::deserialize_compressed(s) {
            Ok(e) => v_of(e.vartime_decompress()),
            Err(e) => ser(Err(e)),
        } });
    }
    v
}

pub fn run_c02(ctx: &Ctx, rec: &mut Rec) {
    const P: &str = "C02";
    let c = &ctx.c;
    let eps = entry_points();
    for e in &eps {
        rec.declare_form(e.name);
    }
    for cl in ["valid", "alias s+kq", "q-s", "bit-flip", "top-bits", "boundary", "q+delta", "q-delta", "engineered-sqrt-exponent", "nonsquare-candidate-on-curve", "field-zoo value", "engineered-intermediate", "random", "random-masked-even", "length", "textual"] {
        rec.declare_class(cl);
    }
    let mut srng = rng_for(ctx.seed, P, 999, 0);
    let mut strings = decode_strings(ctx, &mut srng, ctx.scale(40, 200), ctx.scale(60_000, 3_000_000), true);
    // all lengths 0..=80 (several contents each), around 32 in particular
    for len in 0..=80usize {
        strings.push((vec![0u8; len], "length"));
        strings.push((rand_bytes(&mut srng, len), "length"));
        // a valid encoding, truncated / extended
        let mut v = to_le(&b(8), 32);
        v.resize(len, 0);
        strings.push((v, "length"));
    }
    for len in [100usize, 128, 200, 1000] {
        strings.push((vec![0u8; len], "length"));
    }
    // lengths that alias 32 under a truncating cast or a masked comparison (32 + k*2^8, 32 + k*2^16,
    // 32 + 2^k), neighbours of powers of two, and multiples of 32; content = a valid encoding followed
    // by zeros / by further valid encodings, so that a decoder that looks at a prefix would accept
    {
        let mut lens: Vec<usize> = vec![31, 33, 63, 64, 65, 96, 255, 256, 257];
        for k in 1..=8usize {
            lens.push(32 + 256 * k);
        }
        for k in 6..=17usize {
            lens.push(32 + (1usize << k));
            lens.push(1usize << k);
        }
        lens.push(32 + 65536);
        lens.push(32 + 2 * 65536);
        for len in lens {
            let mut v = to_le(&b(8), 32);
            v.resize(len, 0);
            strings.push((v, "length"));
            let w: Vec<u8> = to_le(&b(8), 32).iter().cycle().take(len).copied().collect();
            strings.push((w, "length"));
        }
    }
    // textual renderings of valid encodings handed over as byte slices: ASCII hex (lower / upper case,
    // with 0x prefix), decimal digits, base64-like; all are wrong-length slices (or 32 bytes of text)
    {
        let samples: Vec<Vec<u8>> = vec![to_le(&b(8), 32), vec![0u8; 32], c.encode_spec(&c.mul(&b(7), &ctx.g)).unwrap().to_vec()];
        for smp in samples {
            let hexs_l = hex::encode(&smp);
            strings.push((hexs_l.clone().into_bytes(), "textual"));
            strings.push((hexs_l.to_uppercase().into_bytes(), "textual"));
            strings.push((format!("0x{hexs_l}").into_bytes(), "textual"));
            strings.push((hexs_l[..32].as_bytes().to_vec(), "textual"));
            strings.push((crate::model::from_le(&smp).to_string().into_bytes(), "textual"));
            let mut padded = crate::model::from_le(&smp).to_string().into_bytes();
            padded.resize(32, b'0');
            strings.push((padded, "textual"));
        }
    }
    rec.count("strings", strings.len() as u64);
    par(rec, |w, n, rec| {
        for (i, (s, class)) in strings.iter().enumerate() {
            if i % n != w {
                continue;
            }
            rec.class(class);
            let spec = c.decode_spec(s);
            rec.eval(&(s.clone(),), false);
            if spec.is_ok() {
                rec.count("spec_accepts", 1);
            }
            let mut first: Option<(&'static str, Verdict)> = None;
            for ep in &eps {
                if s.len() != 32 && !ep.any_len {
                    continue;
                }
                rec.form(ep.name);
                rec.event(format!("decode via {} of {}", ep.name, hx(&s[..s.len().min(40)])));
                let s2 = s.clone();
                let got = guarded(|| (ep.f)(&s2));
                let (verdict, el) = match got {
                    Err(p) => {
                        rec.violation(format!("{P}:{}:panic", ep.name), format!("{} panicked on {}: {p}", ep.name, hx(s)), json!({"bytes": hx(s), "class": class}));
                        continue;
                    }
                    Ok(v) => v,
                };
                // what the specification says for this entry point
                let eff: &[u8] = if ep.stream && s.len() > 32 { &s[..32] } else { &s[..] };
                let spec_eff = if eff.len() == s.len() { spec.clone() } else { c.decode_spec(eff) };
                match (&spec_eff, &verdict) {
                    (Ok(m), Verdict::Ok(bytes, _)) => {
                        if let Err(why) = denotes(c, el.as_ref().unwrap(), m) {
                            rec.violation(format!("{P}:{}:wrong-element", ep.name), format!("{} decoded {} to the wrong element: {why}", ep.name, hx(eff)), json!({"bytes": hx(s)}));
                        }
                        if &bytes[..] != eff {
                            rec.violation(format!("{P}:{}:not-canonical", ep.name), format!("{} accepted {} which re-encodes to {}", ep.name, hx(eff), hx(bytes)), json!({"bytes": hx(s)}));
                        }
                    }
                    (Ok(_), other) => {
                        rec.violation(format!("{P}:{}:rejects-valid", ep.name), format!("{} answered {:?} for the valid encoding {}", ep.name, other, hx(eff)), json!({"bytes": hx(s), "class": class}));
                    }
                    (Err(SpecErr::WrongLength), Verdict::InvalidSliceLength) => {}
                    (Err(SpecErr::WrongLength), other) => {
                        rec.violation(format!("{P}:{}:length-not-rejected", ep.name), format!("{} answered {:?} for a slice of length {}", ep.name, short(other), s.len()), json!({"bytes": hx(s), "len": s.len()}));
                    }
                    (Err(_), Verdict::InvalidEncoding) => {}
                    (Err(e), Verdict::Ok(bytes, _)) => {
                        rec.violation(format!("{P}:{}:accepts-invalid:{}", ep.name, spec_err_name(e)), format!("{} accepted {} (class {class}) which the specification rejects ({e:?}); it decodes to the element encoded as {}", ep.name, hx(eff), hx(bytes)), json!({"bytes": hx(s), "class": class, "spec": format!("{e:?}")}));
                    }
                    (Err(e), other) => {
                        rec.violation(format!("{P}:{}:wrong-error-kind", ep.name), format!("{} answered {:?} for {} (spec: {e:?})", ep.name, short(other), hx(eff)), json!({"bytes": hx(s)}));
                    }
                }
                // all entry points must agree with each other (same verdict, same element bytes)
                if s.len() == 32 {
                    let proj = match &verdict {
                        Verdict::Ok(bts, _) => Verdict::Ok(*bts, El2(vec![], vec![], vec![], vec![])),
                        v => v.clone(),
                    };
                    match &first {
                        None => first = Some((ep.name, proj)),
                        Some((n0, v0)) => {
                            if v0 != &proj {
                                rec.violation(format!("{P}:{}:disagrees-with:{}", ep.name, n0), format!("{} and {} disagree on {}", ep.name, n0, hx(s)), json!({"bytes": hx(s)}));
                            }
                        }
                    }
                }
            }
            if i < 3 {
                rec.sample(json!({"bytes": hx(s), "class": class, "spec": format!("{:?}", spec.as_ref().map(|p| hexs(&p.x)))}));
            }
        }
    });
    placements(ctx, rec, &eps, &strings);
    #[cfg(feature = "ark")]
    stream_positions(ctx, rec);
    rec.check_coverage();
}

/// An `Encoding` at a chosen distance from a 16-byte boundary, with bytes of a valid encoding around it.
#[repr(C, align(16))]
struct Placed<const K: usize> {
    pad: [u8; K],
    e: Encoding,
    tail: [u8; 16],
}
pub fn with_placed<R>(off: usize, bytes: [u8; 32], fill: u8, f: &dyn Fn(&Encoding) -> R) -> R {
    macro_rules! go {
        ($($k:literal)*) => { match off { $($k => { let p = Placed::<$k> { pad: [fill; $k], e: Encoding(bytes), tail: [fill; 16] }; let r = f(std::hint::black_box(&p.e)); std::hint::black_box(&p); r })* _ => unreachable!() } };
    }
    go!(0 1 2 3 4 5 6 7 8 9 10 11 12 13 14 15)
}

/// The same bytes at every distance 0..16 from a 16-byte boundary, as a sub-slice of a larger buffer
/// whose other bytes are (a) zero, (b) copies of a valid encoding, so that a decoder that reads a window
/// other than the slice it was given accepts something: the answer of every slice-taking and
/// reference-taking entry point must not depend on where its argument lives.
fn placements(ctx: &Ctx, rec: &mut Rec, eps: &[EntryPoint], strings: &[(Vec<u8>, &'static str)]) {
    const P: &str = "C02";
    let c = &ctx.c;
    rec.declare_class("placement");
    let valid = to_le(&b(8), 32);
    // all wrong lengths 0..=80 plus a sample of every other class
    let mut chosen: Vec<&(Vec<u8>, &'static str)> = Vec::new();
    let mut per_class: std::collections::HashMap<&str, usize> = Default::default();
    for it in strings {
        let n = per_class.entry(it.1).or_default();
        let cap = if it.1 == "length" { usize::MAX } else { ctx.scale(12, 200) };
        if *n < cap && it.0.len() <= 4096 {
            *n += 1;
            chosen.push(it);
        }
    }
    rec.count("placement strings", chosen.len() as u64);
    par(rec, |w, n, rec| {
        let mut backing: Vec<u128> = vec![0; 4096 / 16 + 8];
        for (i, (s, class)) in chosen.iter().enumerate() {
            if i % n != w {
                continue;
            }
            rec.class("placement");
            let spec = c.decode_spec(s);
            for ep in eps {
                if s.len() != 32 && !ep.any_len {
                    continue;
                }
                // reference answer: the bytes in a Vec of their own
                let s2 = s.clone();
                let Ok((want, _)) = guarded(|| (ep.f)(&s2)) else { continue };
                let want = match want {
                    Verdict::Ok(bts, _) => Verdict::Ok(bts, El2(vec![], vec![], vec![], vec![])),
                    v => v,
                };
                for fill in 0..2 {
                    for off in 0..16usize {
                        // SAFETY: u128 -> u8 view of an initialised buffer
                        let buf: &mut [u8] = unsafe { std::slice::from_raw_parts_mut(backing.as_mut_ptr() as *mut u8, backing.len() * 16) };
                        for (k, x) in buf.iter_mut().enumerate() {
                            *x = if fill == 0 { 0 } else { valid[(k + 32 - off % 32) % 32] };
                        }
                        buf[off..off + s.len()].copy_from_slice(s);
                        let sl: &[u8] = &buf[off..off + s.len()];
                        rec.form(ep.name);
                        rec.eval(&(s.len(), off, fill, ep.name), false);
                        let got = guarded(|| (ep.f)(sl));
                        let got = match got {
                            Err(p) => {
                                rec.violation(format!("{P}:{}:panic:placement", ep.name), format!("{} panicked on a slice of length {} at distance {off} from a 16-byte boundary: {p}", ep.name, s.len()), json!({"bytes": hx(s), "class": class, "offset": off}));
                                continue;
                            }
                            Ok((Verdict::Ok(bts, _), _)) => Verdict::Ok(bts, El2(vec![], vec![], vec![], vec![])),
                            Ok((v, _)) => v,
                        };
                        if got != want {
                            rec.violation(
                                format!("{P}:{}:answer-depends-on-placement", ep.name),
                                format!("{} answered {} for {} (length {}, class {class}, spec {:?}) in a buffer of its own and {} for the same bytes as a sub-slice starting {off} bytes after a 16-byte boundary (surrounding bytes: {})", ep.name, short(&want), hx(&s[..s.len().min(40)]), s.len(), spec.as_ref().map(|_| "valid").map_err(spec_err_name), short(&got), if fill == 0 { "zero" } else { "a valid encoding repeated" }),
                                json!({"bytes": hx(s), "class": class, "offset": off, "fill": fill}),
                            );
                        }
                    }
                }
            }
            // reference-taking entry points on an Encoding stored at every distance from a boundary
            if s.len() == 32 {
                let arr = arr32(s);
                let plain = guarded(|| v_of(Encoding(arr).vartime_decompress()).0);
                let Ok(plain) = plain else { continue };
                let plain = match plain {
                    Verdict::Ok(bts, _) => Verdict::Ok(bts, El2(vec![], vec![], vec![], vec![])),
                    v => v,
                };
                for off in 0..16usize {
                    for (name, f) in [
                        ("Encoding::vartime_decompress", (&|e: &Encoding| v_of(e.vartime_decompress()).0) as &dyn Fn(&Encoding) -> Verdict),
                        ("TryFrom<&Encoding> for Element", &|e: &Encoding| v_of(El::try_from(e)).0),
                        ("TryFrom<&[u8]> for Element", &|e: &Encoding| v_of(El::try_from(&e.0[..])).0),
                    ] {
                        rec.form(name);
                        rec.eval(&(32usize, off, 9u8, name), false);
                        let got = guarded(|| with_placed(off, arr, 0x08, f));
                        let got = match got {
                            Err(p) => {
                                rec.violation(format!("{P}:{name}:panic:placement"), format!("{name} panicked on an Encoding stored {off} bytes after a 16-byte boundary: {p}"), json!({"bytes": hx(s), "offset": off}));
                                continue;
                            }
                            Ok(Verdict::Ok(bts, _)) => Verdict::Ok(bts, El2(vec![], vec![], vec![], vec![])),
                            Ok(v) => v,
                        };
                        if got != plain {
                            rec.violation(format!("{P}:{name}:answer-depends-on-placement"), format!("{name} answered {} for {} held in a local and {} for the same Encoding stored {off} bytes after a 16-byte boundary", short(&plain), hx(s), short(&got)), json!({"bytes": hx(s), "offset": off}));
                        }
                    }
                }
            }
        }
    });
}

fn short(v: &Verdict) -> String {
    match v {
        Verdict::Ok(b, _) => format!("Ok({})", hx(b)),
        o => format!("{o:?}"),
    }
}
fn spec_err_name(e: &SpecErr) -> &'static str {
    match e {
        SpecErr::WrongLength => "length",
        SpecErr::NonCanonical => "non-canonical",
        SpecErr::Negative => "negative",
        SpecErr::NotOnCurve => "non-square",
    }
}

/// stream deserialisers must consume exactly 32 bytes of a longer reader
#[cfg(feature = "ark")]
fn stream_positions(ctx: &Ctx, rec: &mut Rec) {
    use ark_ec::CurveGroup;
    use ark_serialize::CanonicalDeserialize;
    type Af = <El as CurveGroup>::Affine;
    let mut rng = rng_for(ctx.seed, "C02", 998, 0);
    for _ in 0..200 {
        let k = rand_below(&mut rng, &ctx.c.r);
        let p = ctx.c.mul(&k, &ctx.g);
        let mut bytes = ctx.c.encode_spec(&p).unwrap().to_vec();
        let extra = 1 + rand_range(&mut rng, 40);
        bytes.extend(rand_bytes(&mut rng, extra));
        rec.evals += 1;
        rec.count("stream_position_checks", 1);
        let res = guarded(|| {
            let mut r1 = &bytes[..];
            let a = El::deserialize_compressed(&mut r1).is_ok();
            let mut r2 = &bytes[..];
            let bb = Af::deserialize_compressed(&mut r2).is_ok();
            let mut r3 = &bytes[..];
            let cc = Encoding::deserialize_compressed(&mut r3).is_ok();
            (a, r1.len(), bb, r2.len(), cc, r3.len())
        });
        match res {
            Err(p) => rec.violation("C02:stream:panic", format!("stream deserialisation panicked: {p}"), json!({"bytes": hx(&bytes)})),
            Ok((a, l1, bb, l2, cc, l3)) => {
                if !(a && bb && cc) || l1 != extra || l2 != extra || l3 != extra {
                    rec.violation("C02:stream:position", "stream deserialiser did not accept a valid encoding followed by more data, or did not consume exactly 32 bytes", json!({"bytes": hx(&bytes), "left": [l1, l2, l3], "extra": extra}));
                }
            }
        }
    }
}

// ---------------------------------------------------------------------------------------------
// C03
// ---------------------------------------------------------------------------------------------
pub struct Encoder {
    pub name: &'static str,
    pub f: fn(&El) -> Vec<u8>,
}

pub fn encoders() -> Vec<Encoder> {
    let mut v: Vec<Encoder> = Vec::new();
    v.push(Encoder { name: "vartime_compress", f: |e| e.vartime_compress().0.to_vec() });
    v.push(Encoder { name: "vartime_compress_to_field().to_bytes()", f: |e| e.vartime_compress_to_field().to_bytes().to_vec() });
    v.push(Encoder { name: "From<Element> for Encoding", f: |e| Encoding::from(*e).0.to_vec() });
    v.push(Encoder { name: "From<&Element> for Encoding", f: |e| Encoding::from(e).0.to_vec() });
    v.push(Encoder { name: "From<Element> for [u8;32]", f: |e| <[u8; 32]>::from(*e).to_vec() });
    v.push(Encoder { name: "From<Encoding> for [u8;32]", f: |e| <[u8; 32]>::from(e.vartime_compress()).to_vec() });
    #[cfg(feature = "ark")]
    {
        use ark_ec::CurveGroup;
        use ark_serialize::CanonicalSerialize;
        v.push(Encoder { name: "Element::serialize_compressed", f: |e| { let mut o = Vec::new(); e.serialize_compressed(&mut o).unwrap(); assert_eq!(e.compressed_size(), o.len()); o } });
        v.push(Encoder { name: "AffinePoint::serialize_compressed", f: |e| { let a = e.into_affine(); let mut o = Vec::new(); a.serialize_compressed(&mut o).unwrap(); assert_eq!(a.compressed_size(), o.len()); o } });
        v.push(Encoder { name: "Encoding::serialize_compressed", f: |e| { let mut o = Vec::new(); e.vartime_compress().serialize_compressed(&mut o).unwrap(); o } });
        /// accepts at most 5 bytes per `write` call
        struct Chunky(Vec<u8>);
        impl ark_serialize::Write for Chunky {
            fn write(&mut self, buf: &[u8]) -> ark_std::io::Result<usize> {
                let n = buf.len().min(5);
                self.0.extend_from_slice(&buf[..n]);
                Ok(n)
            }
            fn flush(&mut self) -> ark_std::io::Result<()> {
                Ok(())
            }
        }
        v.push(Encoder { name: "Element::serialize_compressed (5-bytes-per-call writer)", f: |e| { let mut o = Chunky(Vec::new()); e.serialize_compressed(&mut o).unwrap(); o.0 } });
        v.push(Encoder { name: "AffinePoint::serialize_compressed (5-bytes-per-call writer)", f: |e| { let mut o = Chunky(Vec::new()); e.into_affine().serialize_compressed(&mut o).unwrap(); o.0 } });
        v.push(Encoder { name: "Encoding::serialize_compressed (5-bytes-per-call writer)", f: |e| { let mut o = Chunky(Vec::new()); e.vartime_compress().serialize_compressed(&mut o).unwrap(); o.0 } });
        v.push(Encoder { name: "Element::serialize_compressed (into [u8;32] slice)", f: |e| { let mut o = [0xaau8; 32]; e.serialize_compressed(&mut o[..]).unwrap(); o.to_vec() } });
        v.push(Encoder { name: "Element::serialize_compressed (16-byte buffer must fail, then full)", f: |e| {
            // a destination that is too short must be an error, never a silent truncation
            let mut small = [0u8; 16];
            let r = e.serialize_compressed(&mut small[..]);
            if r.is_ok() {
                return b"serialising 32 bytes into a 16-byte buffer returned Ok".to_vec();
            }
            let mut o = Vec::new();
            e.serialize_compressed(&mut o).unwrap();
            o
        } });
        // serialisation modes that are unimplemented!() today: a panic hands out nothing and is only
        // counted; if a mode ever returns bytes, they must be the canonical encoding like everything else
        fn opt(f: impl FnOnce() -> Vec<u8> + std::panic::UnwindSafe) -> Vec<u8> {
            std::panic::catch_unwind(f).unwrap_or_else(|_| b"UNIMPLEMENTED".to_vec())
        }
        v.push(Encoder { name: "Element::serialize_uncompressed", f: |e| { let e = *e; opt(move || { let mut o = Vec::new(); e.serialize_uncompressed(&mut o).unwrap(); o }) } });
        v.push(Encoder { name: "AffinePoint::serialize_uncompressed", f: |e| { let a = e.into_affine(); opt(move || { let mut o = Vec::new(); a.serialize_uncompressed(&mut o).unwrap(); o }) } });
        v.push(Encoder { name: "Encoding::serialize_uncompressed", f: |e| { let c = e.vartime_compress(); opt(move || { let mut o = Vec::new(); c.serialize_uncompressed(&mut o).unwrap(); o }) } });
        v.push(Encoder { name: "AffinePoint::serialize_with_mode(No) + uncompressed_size", f: |e| { let a = e.into_affine(); opt(move || {
            let n = a.uncompressed_size();
            let mut o = Vec::new();
            a.serialize_with_mode(&mut o, ark_serialize::Compress::No).unwrap();
            if n != o.len() { return format!("uncompressed_size() = {n} but {} bytes were written", o.len()).into_bytes(); }
            o
        }) } });
        v.push(Encoder { name: "Debug for Element (hex)", f: |e| unhex(&format!("{e:?}"), "decaf377::Element(") });
        v.push(Encoder { name: "Display for Element (hex)", f: |e| unhex(&format!("{e}"), "decaf377::Element(") });
        v.push(Encoder { name: "Debug for Element (alternate {:#?})", f: |e| unhex(&format!("{e:#?}"), "decaf377::Element(") });
        v.push(Encoder { name: "Display for Element (alternate {:#})", f: |e| unhex(&format!("{e:#}"), "decaf377::Element(") });
        v.push(Encoder { name: "Debug for AffinePoint (alternate {:#?})", f: |e| unhex(&format!("{:#?}", e.into_affine()), "decaf377::AffinePoint(") });
        v.push(Encoder { name: "Debug for Encoding (alternate {:#?})", f: |e| unhex(&format!("{:#?}", e.vartime_compress()), "decaf377::Encoding(") });
        v.push(Encoder { name: "Debug for AffinePoint (hex)", f: |e| unhex(&format!("{:?}", e.into_affine()), "decaf377::AffinePoint(") });
        v.push(Encoder { name: "Display for AffinePoint (hex)", f: |e| unhex(&format!("{}", e.into_affine()), "decaf377::AffinePoint(") });
        v.push(Encoder { name: "Debug for Encoding (hex)", f: |e| unhex(&format!("{:?}", e.vartime_compress()), "decaf377::Encoding(") });
        v.push(Encoder { name: "ToConstraintField::to_field_elements", f: |e| {
            use ark_ff::ToConstraintField;
            let v: Vec<Fq> = e.to_field_elements().unwrap();
            assert_eq!(v.len(), 1);
            v[0].to_bytes_le().to_vec()
        } });
        v.push(Encoder { name: "AffinePoint->Element vartime_compress", f: |e| { let a = e.into_affine(); let e2: El = a.into(); e2.vartime_compress().0.to_vec() } });
    }
    v
}

#[cfg(feature = "ark")]
fn unhex(s: &str, prefix: &str) -> Vec<u8> {
    let inner = s.strip_prefix(prefix).and_then(|r| r.strip_suffix(')')).unwrap_or("");
    hex::decode(inner).unwrap_or_else(|_| s.as_bytes().to_vec())
}

fn c03_one(ctx: &Ctx, rec: &mut Rec, encs: &[Encoder], e: &SE) {
    const P: &str = "C03";
    let c = &ctx.c;
    let want = c.encode_spec(&e.m).expect("encodeSpec on 2E");
    rec.class(e.class);
    for en in encs {
        rec.form(en.name);
        rec.eval(&(en.name, e.key(), coords(&e.l).2.to_bytes_le()), e.m.x == b(0));
        let l = e.l;
        match guarded(|| (en.f)(&l)) {
            Err(p) => rec.violation(format!("{P}:{}:panic", en.name), format!("{} panicked: {p}", en.name), json!({"element": el_json(&e.l), "class": e.class})),
            Ok(bytes) if &bytes[..] == b"UNIMPLEMENTED" => rec.count("encoder_mode_unimplemented", 1),
            Ok(bytes) => {
                if bytes[..] != want[..] {
                    rec.violation(format!("{P}:{}:not-spec-encoding", en.name), format!("{} gives {} but encodeSpec gives {} (class {})", en.name, hx(&bytes), hx(&want), e.class), json!({"element": el_json(&e.l), "model": pt_json(&e.m), "class": e.class}));
                }
                if bytes.len() == 32 && bytes[31] >> 5 != 0 {
                    rec.violation(format!("{P}:{}:top-bits", en.name), "top three bits not clear", json!({"bytes": hx(&bytes)}));
                }
            }
        }
    }
}

pub fn run_c03(ctx: &Ctx, rec: &mut Rec) {
    const P: &str = "C03";
    let c = &ctx.c;
    let encs = encoders();
    for e in &encs {
        rec.declare_form(e.name);
    }
    for cl in ["identity", "identity'", "other-rep", "rescaled", "program-register", "G"] {
        rec.declare_class(cl);
    }
    let mut zrng = rng_for(ctx.seed, P, 999, 0);
    let zoo = shadow_zoo(ctx, &mut zrng, ctx.scale(80, 400));
    par(rec, |w, n, rec| {
        let mut rng = rng_for(ctx.seed, P, w, 1);
        for (i, e) in zoo.iter().enumerate() {
            if i % n != w {
                continue;
            }
            c03_one(ctx, rec, &encs, e);
            // every representation of the same element: 2 coset members x rescalings
            for k in 0..3 {
                let mut lam = rand_below(&mut rng, &c.f.p);
                if lam == b(0) {
                    lam = b(3);
                }
                let pt = if k % 2 == 0 { e.m.clone() } else { c.torque(&e.m) };
                let se = SE { l: from_pt_scaled(c, &pt, &lam), m: pt, class: if k % 2 == 0 { "rescaled" } else { "other-rep" } };
                c03_one(ctx, rec, &encs[..2], &se);
                rec.count("representations_compared", 1);
            }
            if i < 3 {
                rec.sample(json!({"class": e.class, "element": el_json(&e.l), "encoding": hx(&enc_quiet(&e.l))}));
            }
        }
        let nprog = ctx.scale(2500, 30000);
        for pi in 0..nprog {
            if pi % n != w {
                continue;
            }
            let len = 4 + rand_range(&mut rng, 30);
            let regs = run_program(ctx, rec, P, &mut rng, &zoo, len, false);
            rec.count("programs", 1);
            for r in regs.iter() {
                c03_one(ctx, rec, &encs[..3], r);
            }
            // injectivity inside the register file + a few zoo members
            let mut batch: Vec<SE> = regs;
            for _ in 0..6 {
                batch.push(zoo[rand_range(&mut rng, zoo.len())].clone());
            }
            injectivity(ctx, rec, &batch);
        }
    });
    // injectivity on big batches of the zoo
    par(rec, |w, n, rec| {
        for (ci, chunk) in zoo.chunks(128).enumerate() {
            if ci % n == w {
                injectivity(ctx, rec, chunk);
            }
        }
    });
    // the Encoding type's own equality: two encodings are equal iff their 32 bytes are (all 256 single-bit
    // differences of produced encodings, pairs of *valid* encodings that differ in exactly one high bit, random pairs)
    rec.declare_form("Encoding == Encoding");
    par(rec, |w, n, rec| {
        let mut rng = rng_for(ctx.seed, P, w, 41);
        for (i, e) in zoo.iter().enumerate() {
            if i % n != w || i % 4 != 0 {
                continue;
            }
            let a = enc_quiet(&e.l);
            let mut pairs: Vec<([u8; 32], [u8; 32])> = Vec::new();
            for bit in 0..256usize {
                let mut bb = a;
                bb[bit / 8] ^= 1 << (bit % 8);
                pairs.push((a, bb));
            }
            pairs.push((a, a));
            pairs.push((a, enc_quiet(&zoo[rand_range(&mut rng, zoo.len())].l)));
            for (x, y) in pairs {
                rec.form("Encoding == Encoding");
                rec.evals += 1;
                let want = x == y;
                let got = guarded(|| (Encoding(x) == Encoding(y), Encoding(y) == Encoding(x), Encoding(x) != Encoding(y)));
                match got {
                    Ok((e1, e2, ne)) if e1 == want && e2 == want && ne != want => {}
                    other => rec.violation(format!("{P}:Encoding-eq"), format!("Encoding({}) == Encoding({}) gives {other:?}, bytes equal = {want}", hx(&x), hx(&y)), json!({"a": hx(&x), "b": hx(&y)})),
                }
            }
        }
        // valid encodings s and s + 2^k that are both valid (k = 200..252): distinct elements, distinct Encodings
        let mut found = 0;
        let mut tries = 0;
        while found < 24 && tries < 4000 {
            tries += 1;
            let mut s = rand_below(&mut rng, &(b(1) << 250));
            if s.bit(0) { s += b(1); }
            let k = 200 + (tries % 53);
            let t = &s + (b(1) << k);
            if s.bit(k as u64) || t >= c.f.p { continue; }
            if let (Ok(p1), Ok(p2)) = (c.decode_spec_fe(&s), c.decode_spec_fe(&t)) {
                found += 1;
                let (l1, l2) = (from_pt(c, &p1), from_pt(c, &p2));
                rec.form("Encoding == Encoding");
                rec.evals += 1;
                rec.count("valid encoding pairs differing in one high bit", 1);
                match guarded(|| (l1.vartime_compress() == l2.vartime_compress(), l1 == l2)) {
                    Ok((false, false)) => {}
                    other => rec.violation(format!("{P}:Encoding-eq:distinct-elements"), format!("two different elements (encodings {} and {}): encodings ==, elements == give {other:?}", hexs(&s), hexs(&t)), json!({})),
                }
            }
        }
    });
    // object-lifecycle programs: every encoder on objects that were deserialised / converted / mutated in
    // place, against encodeSpec of what their coordinates denote
    par(rec, |w, n, rec| crate::life::programs(ctx, rec, P, crate::life::ENC, w, n, ctx.scale(1000, 20000), &zoo));
    rec.check_coverage();
}

fn injectivity(ctx: &Ctx, rec: &mut Rec, batch: &[SE]) {
    const P: &str = "C03";
    let c = &ctx.c;
    let encs: Vec<[u8; 32]> = batch.iter().map(|e| enc_quiet(&e.l)).collect();
    for i in 0..batch.len() {
        for j in i + 1..batch.len() {
            let meq = c.eq(&batch[i].m, &batch[j].m);
            let beq = encs[i] == encs[j];
            let (li, lj) = (batch[i].l, batch[j].l);
            let leq = guarded(|| li == lj).unwrap_or(!meq);
            rec.evals += 1;
            rec.count("pairs_compared", 1);
            if meq {
                rec.count("equal_pairs", 1);
            }
            if meq != beq || meq != leq {
                rec.violation(format!("{P}:injectivity"), format!("model-equal={meq}, bytes-equal={beq}, library-equal={leq}"), json!({"a": el_json(&batch[i].l), "b": el_json(&batch[j].l), "enc_a": hx(&encs[i]), "enc_b": hx(&encs[j])}));
            }
        }
    }
}

#[allow(dead_code)]
fn _unused(_: &B) {
    let _ = from_le(&[0u8]);
}
