//! C11 — field-element encodings and conversions are canonical and consistent.
use crate::ad::*;
use crate::fld::*;
use crate::model::{b, from_le, hexs, to_le, B};
use crate::mon::{guarded, hx, par, rng_for, Rec};
use crate::sh::*;
use crate::zoo::{bytes_zoo, field_random, field_zoo, rand_below, rand_bytes, rand_range};
use rand_core::RngCore;
use serde_json::json;

const P: &str = "C11";

fn run_field<F: FL>(ctx: &Ctx, rec: &mut Rec) {
    let f = F::fld(ctx);
    let sers = F::sers();
    let parsers = F::parsers();
    let reducers = F::reducers();
    let nm = |s: &str| format!("{}: {}", F::NAME, s);
    for x in &sers {
        rec.declare_form(&nm(x.name));
    }
    for x in &parsers {
        rec.declare_form(&nm(x.name));
    }
    for x in &reducers {
        rec.declare_form(&nm(x.name));
    }
    for x in ["Ord", "Hash", "From<u128>", "From<u64>", "From<u32>", "From<u16>", "From<u8>", "From<bool>", "rand (inherent)"] {
        rec.declare_form(&nm(x));
    }
    let zoo = field_zoo(f);
    let n = F::NBYTES;

    // (1) every serialisation of one element denotes the same integer, canonical LE bytes
    par(rec, |w, nw, rec| {
        let mut rng = rng_for(ctx.seed, P, w, n as u64);
        let mut vals = zoo.clone();
        vals.extend(field_random(f, &mut rng, ctx.scale(30_000, 300_000)));
        for (i, (v, class)) in vals.iter().enumerate() {
            if i % nw != w {
                continue;
            }
            let lv = F::from_b(v);
            let want = to_le(v, n);
            for s in &sers {
                rec.form(&nm(s.name));
                rec.eval(&(F::NAME, s.name, v.to_bytes_le()), v <= &b(1));
                match guarded(|| (s.f)(&lv)) {
                    Err(pn) => rec.violation(format!("{P}:{}:panic", nm(s.name)), pn, json!({"v": hexs(v)})),
                    Ok(bytes) => {
                        if bytes != want {
                            rec.violation(format!("{P}:{}:not-canonical-bytes", nm(s.name)), format!("{} of {} gives {} (class {class})", s.name, hexs(v), hx(&bytes)), json!({"v": hexs(v), "class": class}));
                        }
                    }
                }
            }
            if i < 2 {
                rec.sample(json!({"field": F::NAME, "value": hexs(v), "class": class, "canonical_bytes": hx(&want), "serialisers": sers.len()}));
            }
        }
    });

    // (2) checked parsers accept exactly the integers below p; reducers = integer mod p
    let mut srng = rng_for(ctx.seed, P, 999, n as u64);
    let strings = bytes_zoo(f, &mut srng, ctx.scale(60_000, 600_000));
    for (_, cl) in strings.iter() {
        rec.declare_class(&format!("{}:{}", F::NAME, cl));
    }
    par(rec, |w, nw, rec| {
        for (i, (s, class)) in strings.iter().enumerate() {
            if i % nw != w {
                continue;
            }
            rec.class(&format!("{}:{}", F::NAME, class));
            let int = from_le(s);
            for p in &parsers {
                if p.exact && s.len() != n {
                    continue;
                }
                rec.form(&nm(p.name));
                rec.eval(&(F::NAME, p.name, s.clone()), false);
                // stream parsers read the first n bytes of longer input and fail on shorter
                let want: Option<B> = if s.len() < n {
                    None
                } else {
                    let head = from_le(&s[..n]);
                    if head < f.p {
                        Some(head)
                    } else {
                        None
                    }
                };
                let s2 = s.clone();
                match guarded(|| (p.f)(&s2).map(|x| x.to_b())) {
                    Err(pn) => rec.violation(format!("{P}:{}:panic", nm(p.name)), format!("{} panicked on {}: {pn}", p.name, hx(s)), json!({"bytes": hx(s), "class": class})),
                    Ok(got) => {
                        if got != want {
                            let kind = match (&got, &want) {
                                (Some(_), None) => "accepts-non-canonical",
                                (None, Some(_)) => "rejects-canonical",
                                _ => "wrong-value",
                            };
                            rec.violation(format!("{P}:{}:{kind}", nm(p.name)), format!("{} on {} (class {class}): got {:?}, expected {:?}", p.name, hx(s), got.as_ref().map(hexs), want.as_ref().map(hexs)), json!({"bytes": hx(s), "class": class}));
                        }
                    }
                }
            }
            let want = &int % &f.p;
            for r in &reducers {
                rec.form(&nm(r.name));
                rec.eval(&(F::NAME, r.name, s.clone()), s.is_empty());
                let s2 = s.clone();
                match guarded(|| (r.f)(&s2).to_b()) {
                    Err(pn) => rec.violation(format!("{P}:{}:panic", nm(r.name)), format!("{} panicked on a {}-byte string: {pn}", r.name, s.len()), json!({"bytes": hx(s)})),
                    Ok(got) => {
                        if got != want {
                            rec.violation(format!("{P}:{}:wrong-reduction", nm(r.name)), format!("{} of a {}-byte string: got {} expected {}", r.name, s.len(), hexs(&got), hexs(&want)), json!({"bytes": hx(s), "class": class}));
                        }
                    }
                }
            }
        }
    });

    // (3) ordering = integer ordering; hashing consistent with equality; integer conversions
    par(rec, |w, nw, rec| {
        let mut rng = rng_for(ctx.seed, P, w, 1000 + n as u64);
        let reps = ctx.scale(400_000, 2_000_000);
        for rep in 0..reps {
            if rep % nw != w {
                continue;
            }
            let a = if rep % 2 == 0 { zoo[rand_range(&mut rng, zoo.len())].0.clone() } else { rand_below(&mut rng, &f.p) };
            let bb = match rep % 10 {
                0 => a.clone(),
                // same high limbs, everything below limb i re-randomised (first differing limb may differ
                // by more than 2^63 / 2^31)
                7 | 8 => {
                    let i = 1 + rand_range(&mut rng, (f.bits + 31) / 32 - 1);
                    let low_mask = (b(1) << (32 * i)) - b(1);
                    let high = &a - (&a & &low_mask);
                    (high + rand_below(&mut rng, &(b(1) << (32 * i)))) % &f.p
                }
                // internal (Montgomery) representations differ in exactly one limb
                9 => {
                    let n64 = (f.bits + 63) / 64;
                    let rinv = f.inv(&((b(1) << (64 * n64)) % &f.p)).unwrap();
                    let i = rand_range(&mut rng, (f.bits + 31) / 32);
                    f.add(&a, &f.mul(&(b(1) << (32 * i)), &rinv))
                }
                // differences that vanish under a *fold* of the limbs (XOR or sum over 64-bit limbs, XOR of the
                // two 32-bit halves of a limb), applied to the internal (Montgomery) or the canonical form:
                // comparisons that accumulate limb differences with the wrong operator cannot see them
                4 | 5 => {
                    let n64 = (f.bits + 63) / 64;
                    let r_ = (b(1) << (64 * n64)) % &f.p;
                    let montgomery = rep % 4 < 2;
                    let base = if montgomery { f.mul(&a, &r_) } else { a.clone() };
                    let d = b(rng.next_u64() >> (rand_range(&mut rng, 60) as u32)) + b(1);
                    let (i, j) = (rand_range(&mut rng, n64 - 1), n64 - 2 - rand_range(&mut rng, n64 - 1).min(n64 - 2));
                    let (i, j) = if i == j { (0, n64 - 2) } else { (i, j) };
                    let cand = match rep % 3 {
                        0 => &base ^ ((&d << (64 * i)) + (&d << (64 * j))),                      // XOR fold of limbs
                        1 => { let up = &base + (&d << (64 * i)); if up >= (&d << (64 * j)) && i != j { up - (&d << (64 * j)) } else { up } } // sum fold
                        _ => &base ^ ((&d & b(0xffff_ffff)) * b(0x1_0000_0001) << (64 * i)),     // halves of one limb
                    };
                    let cand = cand % &f.p;
                    if montgomery { f.mul(&cand, &f.inv(&r_).unwrap()) } else { cand }
                }
                1 => f.add(&a, &b(1)),
                2 => {
                    // differ only in one 32-bit limb
                    let k = rand_range(&mut rng, (f.bits + 31) / 32);
                    (&a ^ (b(1) << (32 * k))) % &f.p
                }
                3 => zoo[rand_range(&mut rng, zoo.len())].0.clone(),
                _ => rand_below(&mut rng, &f.p),
            };
            let (la, lb) = (F::from_b(&a), F::from_b(&bb));
            rec.form(&nm("Ord"));
            rec.form(&nm("Hash"));
            rec.eval(&(F::NAME, "ord", a.to_bytes_le(), bb.to_bytes_le()), false);
            match guarded(|| (F::cmp_lib(&la, &lb), F::hash_bytes(&la), F::hash_bytes(&lb), la == lb)) {
                Err(pn) => rec.violation(format!("{P}:{}:panic", nm("Ord/Hash")), pn, json!({"a": hexs(&a), "b": hexs(&bb)})),
                Ok((o, ha, hb, eq)) => {
                    if o != a.cmp(&bb) {
                        rec.violation(format!("{P}:{}:not-integer-order", nm("Ord")), format!("cmp({}, {}) = {o:?}", hexs(&a), hexs(&bb)), json!({"a": hexs(&a), "b": hexs(&bb)}));
                    }
                    if eq != (a == bb) {
                        rec.violation(format!("{P}:{}:eq", nm("PartialEq")), format!("{} == {} is {eq}", hexs(&a), hexs(&bb)), json!({}));
                    }
                    if eq && ha != hb {
                        rec.violation(format!("{P}:{}:hash-differs-on-equal", nm("Hash")), "equal elements hash differently", json!({"a": hexs(&a)}));
                    }
                    if !eq && ha.1 == hb.1 {
                        rec.count("unequal elements feeding identical bytes to the hasher (not a violation)", 1);
                    }
                }
            }
        }
        // From<u8..u128, bool>
        let ints: Vec<u128> = {
            let mut v: Vec<u128> = vec![0, 1, 2, 255, 256, 65535, 65536, u32::MAX as u128, u32::MAX as u128 + 1, u64::MAX as u128, u64::MAX as u128 + 1, u128::MAX, u128::MAX - 1, 1u128 << 127];
            for _ in 0..ctx.scale(200, 20000) {
                let x = from_le(&rand_bytes(&mut rng, 16));
                let d = x.to_u64_digits();
                let lo = d.first().copied().unwrap_or(0) as u128;
                let hi = d.get(1).copied().unwrap_or(0) as u128;
                let full = lo | (hi << 64);
                v.push(full >> (rand_range(&mut rng, 128) as u32));
            }
            v
        };
        if w == 0 {
            for v in ints {
                let want = B::from(v) % &f.p;
                rec.eval(&(F::NAME, "from-int", v), v <= 1);
                match guarded(|| F::from_u128(v).into_iter().map(|(n2, x)| (n2, x.to_b())).collect::<Vec<_>>()) {
                    Err(pn) => rec.violation(format!("{P}:{}:panic", nm("From<int>")), pn, json!({"v": v.to_string()})),
                    Ok(outs) => {
                        for (n2, got) in outs {
                            rec.form(&nm(n2));
                            if got != want {
                                rec.violation(format!("{P}:{}:wrong-value", nm(n2)), format!("{n2}({v}) = {}", hexs(&got)), json!({}));
                            }
                        }
                    }
                }
            }
        }
        // inherent rand: in range (round trips through canonical bytes)
        let mut r2 = rng_for(ctx.seed, P, w, 2000 + n as u64);
        for _ in 0..ctx.scale(200, 20000) {
            rec.form(&nm("rand (inherent)"));
            rec.evals += 1;
            match guarded(|| {
                let x = F::rand_inherent(&mut r2);
                (x.to_b(), F::from_b(&x.to_b()) == x)
            }) {
                Err(pn) => rec.violation(format!("{P}:{}:panic", nm("rand")), pn, json!({})),
                Ok((v, rt)) => {
                    if v >= f.p || !rt {
                        rec.violation(format!("{P}:{}:out-of-range", nm("rand")), format!("rand produced {}", hexs(&v)), json!({}));
                    }
                }
            }
        }
    });
    #[cfg(feature = "ark")]
    ark_extras::<F>(ctx, rec);
}

/// flags, FromStr, Distribution (arkworks build)
#[cfg(feature = "ark")]
fn ark_extras<F: FL>(ctx: &Ctx, rec: &mut Rec) {
    use ark_serialize::{CanonicalDeserializeWithFlags, CanonicalSerializeWithFlags, EmptyFlags, Flags};
    use ark_ec::twisted_edwards::TEFlags;
    use ark_ec::short_weierstrass::SWFlags;
    use std::str::FromStr;
    let f = F::fld(ctx);
    let zoo = field_zoo(f);
    let n = F::NBYTES;
    let nm = |s: &str| format!("{}: {}", F::NAME, s);
    for x in ["(de)serialize_with_flags<EmptyFlags>", "(de)serialize_with_flags<TEFlags>", "(de)serialize_with_flags<SWFlags>", "FromStr", "Distribution<F>::sample", "From<BigInt>", "Display under format specifications"] {
        rec.declare_form(&nm(x));
    }
    // non-standard flag types: 4 and 8 flag bits do not fit into the spare bits of the last byte (an extra
    // byte is emitted), 9 bits exceed what the format allows (NotEnoughSpace on both sides)
    #[derive(Default, Clone, Copy, PartialEq, Debug)]
    struct FlagsN<const N: usize>(u8);
    impl<const N: usize> Flags for FlagsN<N> {
        const BIT_SIZE: usize = N;
        fn u8_bitmask(&self) -> u8 { if N == 0 { 0 } else { self.0 << (8 - N) } }
        fn from_u8(value: u8) -> Option<Self> { Some(FlagsN(if N == 0 { 0 } else { value >> (8 - N) })) }
    }
    #[derive(Default, Clone, Copy, PartialEq, Debug)]
    struct Wide(u8);
    impl Flags for Wide {
        const BIT_SIZE: usize = 9;
        fn u8_bitmask(&self) -> u8 { self.0 }
        fn from_u8(value: u8) -> Option<Self> { Some(Wide(value)) }
    }
    rec.declare_form(&nm("(de)serialize_with_flags<1..8-bit flags>"));
    rec.declare_form(&nm("(de)serialize_with_flags<9-bit flags> refused"));
    fn flag_rt<F: ark_ff::PrimeField, FL: Flags + PartialEq>(v: &F, fl: FL) -> Result<(Vec<u8>, usize), String> {
        let mut o = Vec::new();
        v.serialize_with_flags(&mut o, fl).map_err(|e| format!("serialize: {e:?}"))?;
        let size = v.serialized_size_with_flags::<FL>();
        let (back, fl2) = F::deserialize_with_flags::<_, FL>(&o[..]).map_err(|e| format!("deserialize: {e:?}"))?;
        if &back != v {
            return Err("value changed".into());
        }
        if fl2 != fl {
            return Err(format!("flags changed: bitmask {:#x} -> {:#x}", fl.u8_bitmask(), fl2.u8_bitmask()));
        }
        Ok((o, size))
    }
    par(rec, |w, nw, rec| {
        let mut rng = rng_for(ctx.seed, P, w, 3000 + n as u64);
        let mut vals = zoo.clone();
        vals.extend(field_random(f, &mut rng, ctx.scale(3000, 60_000)));
        for (i, (v, class)) in vals.iter().enumerate() {
            if i % nw != w {
                continue;
            }
            let lv = F::from_b(v);
            rec.eval(&(F::NAME, "flags", v.to_bytes_le()), false);
            let bits_free = 8 * n - f.bits;
            let res = guarded(|| {
                let mut out: Vec<(&'static str, Result<(Vec<u8>, usize), String>, usize)> = Vec::new();
                out.push(("(de)serialize_with_flags<EmptyFlags>", flag_rt(&lv, EmptyFlags), EmptyFlags::BIT_SIZE));
                for fl in [TEFlags::XIsPositive, TEFlags::XIsNegative] {
                    out.push(("(de)serialize_with_flags<TEFlags>", flag_rt(&lv, fl), TEFlags::BIT_SIZE));
                }
                for fl in [SWFlags::YIsPositive, SWFlags::YIsNegative, SWFlags::PointAtInfinity] {
                    out.push(("(de)serialize_with_flags<SWFlags>", flag_rt(&lv, fl), SWFlags::BIT_SIZE));
                }
                if i % 4 == 0 {
                    // every flag width 1..=8: widths that exactly fill the spare bits of the last byte, that spill
                    // into an extra byte, and everything between
                    macro_rules! widths {
                        ($($n:literal),*) => { $(
                            for k in [0u8, 1, ((1u16 << $n) - 1) as u8, (i as u8) & (((1u16 << $n) - 1) as u8)] {
                                out.push(("(de)serialize_with_flags<1..8-bit flags>", flag_rt(&lv, FlagsN::<$n>(k)), $n));
                            }
                        )* };
                    }
                    widths!(1, 2, 3, 4, 5, 6, 7, 8);
                    // 9 flag bits: both directions must refuse
                    let mut o = Vec::new();
                    let ser_refused = lv.serialize_with_flags(&mut o, Wide(1)).is_err();
                    let de_refused = F::deserialize_with_flags::<_, Wide>(&[0u8; 64][..]).is_err();
                    let verdict = if ser_refused && de_refused { Ok((vec![0u8; (f.bits + 9 + 7) / 8].iter().enumerate().map(|(j, _)| if j < n { to_le(v, n)[j] } else { 0 }).collect::<Vec<u8>>(), (f.bits + 9 + 7) / 8)) } else { Err(format!("9 flag bits: serialize refused = {ser_refused}, deserialize refused = {de_refused}")) };
                    out.push(("(de)serialize_with_flags<9-bit flags> refused", verdict, 9));
                }
                out
            });
            match res {
                Err(pn) => rec.violation(format!("{P}:{}:panic", nm("serialize_with_flags")), pn, json!({"v": hexs(v)})),
                Ok(outs) => {
                    for (name, r, fbits) in outs {
                        rec.form(&nm(name));
                        let want_len = (f.bits + fbits + 7) / 8;
                        match r {
                            Err(why) => rec.violation(format!("{P}:{}:roundtrip", nm(name)), format!("{name} on {} ({class}): {why}", hexs(v)), json!({"v": hexs(v)})),
                            Ok((bytes, size)) => {
                                let _ = bits_free;
                                if bytes.len() != want_len || size != want_len {
                                    rec.violation(format!("{P}:{}:size", nm(name)), format!("serialized {} bytes, size says {size}, expected {want_len}", bytes.len()), json!({"v": hexs(v)}));
                                }
                                // value part must still be the canonical integer once flag bits are masked
                                let mut vb = bytes.clone();
                                if vb.len() > n {
                                    vb.truncate(n);
                                } else if fbits > 0 && fbits < 8 {
                                    let last = vb.len() - 1;
                                    vb[last] &= (0xffu16 >> fbits) as u8;
                                }
                                if from_le(&vb) != *v {
                                    rec.violation(format!("{P}:{}:value-bytes", nm(name)), "flagged serialisation does not carry the canonical integer", json!({"v": hexs(v), "bytes": hx(&bytes)}));
                                }
                            }
                        }
                    }
                }
            }
            // hostile flagged encodings: the value part (flag bits masked off) at and around p
            {
                fn try_flags<F: ark_ff::PrimeField, FL: Flags>(bytes: &[u8]) -> Option<(F, u8)> {
                    F::deserialize_with_flags::<_, FL>(bytes).ok().map(|(v, fl)| (v, fl.u8_bitmask()))
                }
                let spare = 8 * n - f.bits;
                let hostile: Vec<B> = vec![v.clone(), v + &f.p, &f.p - b(1), f.p.clone(), &f.p + b(1), (b(1) << f.bits) - b(1)];
                for hv in hostile {
                    if hv.bits() as usize > 8 * n {
                        continue;
                    }
                    for (fname, fbits, masks) in [("TEFlags", 1usize, vec![0u8, 0x80]), ("SWFlags", 2usize, vec![0u8, 0x80, 0x40, 0xc0]), ("EmptyFlags", 0usize, vec![0u8])] {
                        for mask in masks {
                            // flags live in the top bits of the last byte when they fit, else in an extra byte
                            let mut bytes = to_le(&hv, n);
                            let in_last = spare >= fbits;
                            if in_last {
                                if (bytes[n - 1] & (0xffu16 << (8 - fbits.max(1))) as u8) != 0 && fbits > 0 {
                                    continue; // the value itself occupies flag bit positions
                                }
                                bytes[n - 1] |= mask;
                            } else {
                                bytes.push(mask);
                            }
                            let b2 = bytes.clone();
                            let got = guarded(|| match fname {
                                "TEFlags" => try_flags::<F, TEFlags>(&b2),
                                "SWFlags" => try_flags::<F, SWFlags>(&b2),
                                _ => try_flags::<F, EmptyFlags>(&b2),
                            });
                            rec.form(&nm(&format!("(de)serialize_with_flags<{fname}>")));
                            rec.eval(&(F::NAME, "hostile-flags", bytes.clone(), fname), false);
                            let want_ok = hv < f.p && !(fname == "SWFlags" && mask == 0xc0);
                            match got {
                                Err(pn) => rec.violation(format!("{P}:{}:panic", nm("deserialize_with_flags")), pn, json!({"bytes": hx(&bytes)})),
                                Ok(r) => {
                                    let ok = r.is_some();
                                    if ok != want_ok {
                                        rec.violation(format!("{P}:{}:{}", nm(&format!("deserialize_with_flags<{fname}>")), if ok { "accepts-non-canonical" } else { "rejects-canonical" }), format!("flagged encoding {} (value part {} p, flag mask {mask:#x})", hx(&bytes), if hv < f.p { "<" } else { ">=" }), json!({"bytes": hx(&bytes)}));
                                    } else if let Some((val, fl)) = r {
                                        if val.to_b() != hv || fl != mask {
                                            rec.violation(format!("{P}:{}:wrong-value-or-flags", nm(&format!("deserialize_with_flags<{fname}>"))), format!("flagged encoding {} parsed to value {} flags {fl:#x}", hx(&bytes), hexs(&val.to_b())), json!({}));
                                        }
                                    }
                                }
                            }
                        }
                    }
                }
            }
            // Display under format specifications (precision, width, fill, sign, alternate): whatever padding the
            // impl honours, the digits printed must still be the canonical decimal expansion
            if i % 8 == 0 {
                let want_digits = if v == &b(0) { String::new() } else { v.to_string() };
                let lv2 = lv;
                let outs = guarded(move || vec![
                    ("{:.12}", format!("{:.12}", lv2)), ("{:.0}", format!("{:.0}", lv2)), ("{:>90}", format!("{:>90}", lv2)), ("{:<5}", format!("{:<5}", lv2)),
                    ("{:*^100}", format!("{:*^100}", lv2)), ("{:+}", format!("{:+}", lv2)), ("{:090}", format!("{:090}", lv2)), ("{:#}", format!("{:#}", lv2)),
                    ("{:10.3}", format!("{:10.3}", lv2)), ("to_string()", lv2.to_string()),
                ]);
                rec.form(&nm("Display under format specifications"));
                match outs {
                    Err(pn) => rec.violation(format!("{P}:{}:panic", nm("Display under format specifications")), pn, json!({"v": hexs(v)})),
                    Ok(list) => {
                        for (spec, text) in list {
                            let core: String = text.trim_matches(|ch| ch == ' ' || ch == '*').trim_start_matches('+').to_string();
                            let core = if spec == "{:090}" { let t = core.trim_start_matches('0'); t.to_string() } else { core };
                            if core != want_digits && !(want_digits.is_empty() && core == "0") {
                                rec.violation(format!("{P}:{}:digits-changed", nm("Display under format specifications")), format!("format!(\"{spec}\") of {} prints `{text}`", hexs(v)), json!({"v": hexs(v), "spec": spec}));
                            }
                        }
                    }
                }
            }
            // FromStr(decimal) and Display round trip
            rec.form(&nm("FromStr"));
            let dec = v.to_str_radix(10);
            let with_zeros = format!("000{dec}");
            let over = (v + &f.p).to_str_radix(10);
            let res = guarded(|| {
                let a = F::from_str(&dec).ok().map(|x| x.to_b());
                let a0 = F::from_str(&with_zeros).ok().map(|x| x.to_b());
                let a2 = F::from_str(&over).ok().map(|x| x.to_b());
                let disp = F::from_str(&format!("{}", lv)).ok().map(|x| x.to_b());
                let bad = [F::from_str("12a").is_err(), F::from_str("-1").is_err(), F::from_str(" 1").is_err(), F::from_str("0x10").is_err()];
                (a, a0, a2, disp, bad)
            });
            match res {
                Err(pn) => rec.violation(format!("{P}:{}:panic", nm("FromStr")), pn, json!({"v": hexs(v)})),
                Ok((a, a0, a2, disp, bad)) => {
                    if a.as_ref() != Some(v) || a0.as_ref() != Some(v) || disp.as_ref() != Some(v) {
                        rec.violation(format!("{P}:{}:wrong-value", nm("FromStr")), format!("FromStr/Display round trip of {} failed: {:?} {:?} {:?}", dec, a.as_ref().map(hexs), a0.as_ref().map(hexs), disp.as_ref().map(hexs)), json!({}));
                    }
                    if a2.as_ref() != Some(v) {
                        rec.violation(format!("{P}:{}:not-mod-p", nm("FromStr")), "digits of v+p do not parse to v", json!({"v": hexs(v)}));
                    }
                    if bad.iter().any(|x| !x) {
                        rec.violation(format!("{P}:{}:accepts-garbage", nm("FromStr")), format!("non-digit strings accepted: {bad:?}"), json!({}));
                    }
                }
            }
            // From<BigInt<N>>: any N-limb integer reduces mod p
            rec.form(&nm("From<BigInt>"));
            let raw = rand_bytes(&mut rng, ((f.bits + 63) / 64) * 8);
            let want = from_le(&raw) % &f.p;
            match guarded(|| {
                let bi = <F as ark_ff::PrimeField>::BigInt::try_from(num_bigint::BigUint::from_bytes_le(&raw)).ok().map(|bi| F::from(bi).to_b());
                bi
            }) {
                Err(pn) => rec.violation(format!("{P}:{}:panic", nm("From<BigInt>")), pn, json!({"raw": hx(&raw)})),
                Ok(Some(got)) => {
                    if got != want {
                        rec.violation(format!("{P}:{}:wrong-value", nm("From<BigInt>")), format!("got {} expected {}", hexs(&got), hexs(&want)), json!({"raw": hx(&raw)}));
                    }
                }
                Ok(None) => {}
            }
        }
        // Distribution<F>
        let mut r2 = rng_for(ctx.seed, P, w, 4000 + n as u64);
        for _ in 0..ctx.scale(300, 30000) {
            rec.form(&nm("Distribution<F>::sample"));
            rec.evals += 1;
            match guarded(|| {
                let x: F = <F as ark_ff::UniformRand>::rand(&mut r2);
                x.to_b()
            }) {
                Err(pn) => rec.violation(format!("{P}:{}:panic", nm("Distribution")), pn, json!({})),
                Ok(v) => {
                    if v >= f.p {
                        rec.violation(format!("{P}:{}:out-of-range", nm("Distribution")), hexs(&v), json!({}));
                    }
                }
            }
        }
    });
    // decimal strings built around the overflow boundaries of word-wise digit accumulation: the digits of
    // MAX/10 and MAX for u32 / u64 / u128 / i64 followed by each of 0, 5, 6, 9, at every digit offset, after a
    // prefix of 9s, of 1 followed by 0s, of 1 followed by 9s (greedy packing aligns differently after each),
    // followed by filler digits; value = the integer the digits denote, reduced mod p
    rec.declare_class("decimal word boundary");
    {
        let boundaries: Vec<String> = vec![
            (u64::MAX / 10).to_string(), u64::MAX.to_string(), (u32::MAX / 10).to_string(), u32::MAX.to_string(),
            (u128::MAX / 10).to_string(), u128::MAX.to_string(), (i64::MAX / 10).to_string(), i64::MAX.to_string(), (1u128 << 64).to_string(),
        ];
        let maxlen = (f.bits * 30103 / 100000) + 24;
        let mut strings: Vec<String> = Vec::new();
        for bd in &boundaries {
            for last in ["0", "5", "6", "9", ""] {
                for o in 0..maxlen.saturating_sub(bd.len()) {
                    for kind in 0..3 {
                        let prefix: String = (0..o).map(|k| match (kind, k) { (0, _) => '9', (1, 0) | (2, 0) => '1', (1, _) => '0', _ => '9' }).collect();
                        for tail in ["", "31415926535897932384"] {
                            strings.push(format!("{prefix}{bd}{last}{tail}"));
                        }
                    }
                }
            }
        }
        rec.count("decimal word-boundary strings", strings.len() as u64);
        par(rec, |w, nw, rec| {
            for (i, st) in strings.iter().enumerate() {
                if i % nw != w {
                    continue;
                }
                rec.class("decimal word boundary");
                rec.form(&nm("FromStr"));
                rec.eval(&(F::NAME, "decimal-boundary", st.clone()), false);
                let want = B::parse_bytes(st.as_bytes(), 10).expect("digits") % &f.p;
                let st2 = st.clone();
                match guarded(|| F::from_str(&st2).ok().map(|x| x.to_b())) {
                    Err(pn) => rec.violation(format!("{P}:{}:panic", nm("FromStr")), format!("FromStr panicked on the digits {st}: {pn}"), json!({"digits": st})),
                    Ok(got) => {
                        if got.as_ref() != Some(&want) {
                            rec.violation(format!("{P}:{}:wrong-value", nm("FromStr")), format!("FromStr of the digits {st} gives {:?}, expected {}", got.as_ref().map(hexs), hexs(&want)), json!({"digits": st}));
                        }
                    }
                }
            }
        });
    }
}

pub fn run(ctx: &Ctx, rec: &mut Rec) {
    run_field::<Fq>(ctx, rec);
    run_field::<Fr>(ctx, rec);
    run_field::<Fp>(ctx, rec);
    rec.check_coverage();
}
