//! Object-lifecycle programs: registers hold *library objects that persist* (an `Element` or, in the
//! arkworks build, an `AffinePoint`) together with the model point they must denote. Objects come from
//! different constructors (decoding, stream deserialisation, conversions, the coordinate hook, copies),
//! are mutated *in place* (`+=`, `-=`, `*=`, doubling, negation, with owned/borrowed and mixed
//! operands) and are observed after every step. The operator catalogue of `grp.rs` converts and
//! re-creates its operands for every call, so state carried *inside* an object between its construction,
//! its mutation and its observation (a remembered wire form, a memoised encoding, a flag set by one
//! constructor only) is only visible here.
//!
//! What is judged depends on the property that runs the programs:
//!  * `DENOTE` (C04): the object denotes the tracked model point (up to the coset);
//!  * `ENC` (C03): every encoder applied to the object gives encodeSpec of the point its *actual
//!    coordinates* denote, and decoding that encoding gives back an equal object (`RT`, C01);
//!  * `EQHASH` (C08): `==`, `Hash` and the identity predicates agree with the model on the actual
//!    coordinates, across all pairs of registers.
#![allow(dead_code)]
use crate::ad::*;
use crate::model::{b, hexs, Pt, B};
use crate::mon::{guarded, hx, rng_for, Rec};
use crate::sh::*;
use crate::zoo::{rand_below, rand_range};
use rand_core::RngCore;
use serde_json::json;

pub const DENOTE: u32 = 1;
pub const ENC: u32 = 2;
pub const RT: u32 = 4;
pub const EQHASH: u32 = 8;

#[cfg(feature = "ark")]
mod k {
    use super::*;
    use ark_ec::{AffineRepr, CurveGroup, Group};
    use ark_ff::Zero;
    use ark_serialize::{CanonicalDeserialize, CanonicalSerialize};
    use std::hash::{Hash, Hasher};
    pub type Af = <El as CurveGroup>::Affine;

    #[derive(Clone, Copy)]
    pub enum Obj {
        E(El),
        A(Af),
    }
    impl Obj {
        pub fn kind(&self) -> &'static str {
            match self {
                Obj::E(_) => "Element",
                Obj::A(_) => "AffinePoint",
            }
        }
        /// the element whose coordinates are read through the hook
        pub fn as_el(&self) -> El {
            match self {
                Obj::E(e) => *e,
                Obj::A(a) => a.into(),
            }
        }
    }
    pub const N_CTORS: usize = 18;
    /// arkworks' twisted-Edwards "random bytes" format: y little-endian with the sign of x in the top bit
    fn te_bytes(c: &crate::model::Curve, p: &Pt) -> Vec<u8> {
        let mut y = crate::model::to_le(&p.y, 32);
        if p.x > ((&c.f.p - b(1)) >> 1usize) {
            y[31] |= 0x80;
        }
        y
    }
    fn via_r1cs_value(e: El, as_affine_input: bool) -> El {
        use ark_r1cs_std::alloc::AllocVar;
        use ark_r1cs_std::R1CSVar;
        use ark_relations::r1cs::ConstraintSystem;
        use decaf377::r1cs::ElementVar;
        let cs = ConstraintSystem::<Fq>::new_ref();
        let var = if as_affine_input {
            let a: Af = e.into();
            ElementVar::new_input(cs.clone(), || Ok(a)).expect("allocation of a valid element")
        } else {
            ElementVar::new_witness(cs.clone(), || Ok(e)).expect("allocation of a valid element")
        };
        var.value().expect("value of an honestly allocated variable")
    }
    pub fn construct(ctx: &Ctx, which: usize, m: &Pt, src: &Obj, rng: &mut impl RngCore) -> (&'static str, Obj) {
        let c = &ctx.c;
        let bytes = c.encode_spec(m).unwrap();
        let lam = {
            let l = rand_below(rng, &c.f.p);
            if l == b(0) { b(3) } else { l }
        };
        match which % N_CTORS {
            0 => ("Encoding::vartime_decompress", Obj::E(dec(&bytes).expect("valid"))),
            1 => ("Element::deserialize_compressed", Obj::E(El::deserialize_compressed(&bytes[..]).expect("valid"))),
            2 => ("AffinePoint::deserialize_compressed", Obj::A(Af::deserialize_compressed(&bytes[..]).expect("valid"))),
            3 => ("hook: rescaled", Obj::E(from_pt_scaled(c, m, &lam))),
            4 => ("hook: other coset member", Obj::E(from_pt_scaled(c, &c.torque(m), &lam))),
            5 => ("into_affine", Obj::A(src.as_el().into_affine())),
            6 => ("From<Element> for AffinePoint", Obj::A(Af::from(src.as_el()))),
            7 => ("From<&Element> for AffinePoint", Obj::A(Af::from(&src.as_el()))),
            8 => ("into_group", Obj::E(Af::from(src.as_el()).into_group())),
            9 => ("From<&AffinePoint> for Element", Obj::E(El::from(&Af::from(src.as_el())))),
            10 => ("copy", *src),
            11 => ("normalize_batch", Obj::A(El::normalize_batch(&[El::IDENTITY, src.as_el(), El::GENERATOR])[1])),
            12 => ("AffinePoint from other coset member", Obj::A(from_pt(c, &c.torque(m)).into_affine())),
            13 => ("TryFrom<&[u8]> for Element", Obj::E(El::try_from(&bytes[..]).expect("valid"))),
            14 => ("R1CSVar::value() of ElementVar::new_witness", Obj::E(via_r1cs_value(src.as_el(), false))),
            // (the crate reads y reduced mod q and ignores the sign flag, so only the member with the smaller x can
            // come out; a refusal falls back to a conversion)
            16 => match Af::from_random_bytes(&crate::model::to_le(&m.y, 32)) { Some(a) => ("AffineRepr::from_random_bytes(y)", Obj::A(if denotes(c, &El::from(a), m).is_ok() { a } else { -a })), None => ("into_affine (from_random_bytes refused)", Obj::A(src.as_el().into_affine())) },
            17 => match Af::from_random_bytes(&crate::model::to_le(&c.torque(m).y, 32)) { Some(a) => ("AffineRepr::from_random_bytes(y of the other member)", Obj::A(if denotes(c, &El::from(a), m).is_ok() { a } else { -a })), None => ("into_affine (from_random_bytes refused)", Obj::A(src.as_el().into_affine())) },
            _ => ("R1CSVar::value() of ElementVar::new_input(AffinePoint)", Obj::E(via_r1cs_value(src.as_el(), true))),
        }
    }
    pub const N_MUTS: usize = 20;
    /// mutate `dst` in place using `src`; returns the name and the new tracked model point
    pub fn mutate(ctx: &Ctx, which: usize, dst: &mut Obj, dm: &Pt, src: &Obj, sm: &Pt, k: &B) -> (&'static str, Pt) {
        let c = &ctx.c;
        let lk = fr(k);
        let se = src.as_el();
        let sa: Af = se.into();
        match dst {
            Obj::E(e) => match which % 16 {
                0 => { *e += se; ("E += E", c.add(dm, sm)) }
                1 => { *e += &se; ("E += &E", c.add(dm, sm)) }
                2 => { *e += sa; ("E += A", c.add(dm, sm)) }
                3 => { *e += &sa; ("E += &A", c.add(dm, sm)) }
                4 => { *e -= se; ("E -= E", c.sub(dm, sm)) }
                5 => { *e -= &se; ("E -= &E", c.sub(dm, sm)) }
                6 => { *e -= sa; ("E -= A", c.sub(dm, sm)) }
                7 => { *e -= &sa; ("E -= &A", c.sub(dm, sm)) }
                8 => { *e *= lk; ("E *= Fr", c.mul(k, dm)) }
                9 => { *e *= &lk; ("E *= &Fr", c.mul(k, dm)) }
                10 => { e.double_in_place(); ("E.double_in_place()", c.double(dm)) }
                11 => { *e = -*e; ("E = -E", c.neg(dm)) }
                12 => { let copy = *e; *e += copy; ("E += itself", c.double(dm)) }
                13 => { let copy = *e; *e -= &copy; ("E -= &itself", c.identity()) }
                14 => { Zero::set_zero(e); ("Zero::set_zero(E)", c.identity()) }
                _ => { e.clone_from(&se); ("E.clone_from(&src)", sm.clone()) }
            },
            Obj::A(a) => match which % 10 {
                0 => { *a += sa; ("A += A", c.add(dm, sm)) }
                1 => { *a += &sa; ("A += &A", c.add(dm, sm)) }
                2 => { *a -= sa; ("A -= A", c.sub(dm, sm)) }
                3 => { *a -= &sa; ("A -= &A", c.sub(dm, sm)) }
                4 => { *a *= lk; ("A *= Fr", c.mul(k, dm)) }
                5 => { *a *= &lk; ("A *= &Fr", c.mul(k, dm)) }
                6 => { *a = -*a; ("A = -A", c.neg(dm)) }
                7 => { let copy = *a; *a += &copy; ("A += &itself", c.double(dm)) }
                8 => { let copy = *a; *a -= copy; ("A -= itself", c.identity()) }
                _ => { let mut v = vec![*a, *a]; v.clone_from_slice(&[sa, sa]); *a = v[1]; ("[A].clone_from_slice(src)", sm.clone()) }
            },
        }
    }
    pub fn encoders(o: &Obj) -> Vec<(&'static str, Vec<u8>)> {
        fn unhex(s: &str, prefix: &str) -> Vec<u8> {
            let inner = s.strip_prefix(prefix).and_then(|r| r.strip_suffix(')')).unwrap_or("");
            hex::decode(inner).unwrap_or_else(|_| s.as_bytes().to_vec())
        }
        match o {
            Obj::E(e) => {
                let mut ser = Vec::new();
                e.serialize_compressed(&mut ser).unwrap();
                vec![
                    ("Element::vartime_compress", e.vartime_compress().0.to_vec()),
                    ("Element::vartime_compress_to_field", e.vartime_compress_to_field().to_bytes().to_vec()),
                    ("Element::serialize_compressed", ser),
                    ("Debug for Element", unhex(&format!("{e:?}"), "decaf377::Element(")),
                    ("Display for Element", unhex(&format!("{e}"), "decaf377::Element(")),
                    ("Debug for Element (alternate {:#?})", unhex(&format!("{e:#?}"), "decaf377::Element(")),
                    ("Display for Element (alternate {:#})", unhex(&format!("{e:#}"), "decaf377::Element(")),
                    ("Debug for Element inside a tuple (pretty)", { let t = format!("{:#?}", (*e,)); let inner = t.trim_start_matches('(').trim_end_matches(')').trim().trim_end_matches(',').trim().to_string(); unhex(&inner, "decaf377::Element(") }),
                    ("From<&Element> for Encoding", Encoding::from(e).0.to_vec()),
                ]
            }
            Obj::A(a) => {
                let mut ser = Vec::new();
                a.serialize_compressed(&mut ser).unwrap();
                let e: El = a.into();
                vec![
                    ("AffinePoint::serialize_compressed", ser),
                    ("Debug for AffinePoint", unhex(&format!("{a:?}"), "decaf377::AffinePoint(")),
                    ("Display for AffinePoint", unhex(&format!("{a}"), "decaf377::AffinePoint(")),
                    ("Debug for AffinePoint (alternate {:#?})", unhex(&format!("{a:#?}"), "decaf377::AffinePoint(")),
                    ("AffinePoint -> Element vartime_compress", e.vartime_compress().0.to_vec()),
                    ("AffinePoint::into_group().vartime_compress", a.into_group().vartime_compress().0.to_vec()),
                ]
            }
        }
    }
    pub fn roundtrip_eq(o: &Obj, bytes: &[u8; 32]) -> Result<bool, String> {
        match o {
            Obj::E(e) => dec(bytes).map(|d| d == *e && *e == d).map_err(|e| format!("{e:?}")),
            Obj::A(a) => Af::deserialize_compressed(&bytes[..]).map(|d| d == *a && *a == d).map_err(|e| format!("{e:?}")),
        }
    }
    pub fn hashes(o: &Obj) -> (u64, Vec<u8>) {
        #[derive(Default)]
        struct ByteRecorder(Vec<u8>);
        impl Hasher for ByteRecorder {
            fn finish(&self) -> u64 { 0 }
            fn write(&mut self, bytes: &[u8]) { self.0.extend_from_slice(bytes); }
        }
        let mut h = std::collections::hash_map::DefaultHasher::new();
        let mut r = ByteRecorder::default();
        let mut cr = crate::c08::arkp::CallRecorder::default();
        match o {
            Obj::E(e) => { e.hash(&mut h); e.hash(&mut r); e.hash(&mut cr); }
            Obj::A(a) => { a.hash(&mut h); a.hash(&mut r); a.hash(&mut cr); }
        }
        r.0.extend_from_slice(&cr.0);
        (h.finish(), r.0)
    }
    /// `==` in both directions; objects of different kinds are compared after converting either way
    pub fn equal(x: &Obj, y: &Obj) -> (bool, bool) {
        match (x, y) {
            (Obj::E(p), Obj::E(q)) => (p == q, q == p),
            (Obj::A(p), Obj::A(q)) => (p == q, q == p),
            (Obj::E(p), Obj::A(q)) => (*p == El::from(q), Af::from(p) == *q),
            (Obj::A(p), Obj::E(q)) => (El::from(p) == *q, *p == Af::from(q)),
        }
    }
    /// the `!=` operator (PartialEq::ne may be overridden separately from eq)
    pub fn not_equal(x: &Obj, y: &Obj) -> Option<bool> {
        match (x, y) {
            (Obj::E(p), Obj::E(q)) => Some(p != q),
            (Obj::A(p), Obj::A(q)) => Some(p != q),
            _ => None,
        }
    }
    pub fn identity_predicates(o: &Obj) -> Vec<(&'static str, bool)> {
        match o {
            Obj::E(e) => vec![
                ("Element::is_identity", e.is_identity()),
                ("Zero::is_zero", Zero::is_zero(e)),
                ("== Element::IDENTITY", *e == El::IDENTITY),
                ("== Element::default()", *e == El::default()),
                ("== Zero::zero()", *e == <El as Zero>::zero()),
            ],
            Obj::A(a) => vec![
                ("AffineRepr::is_zero", AffineRepr::is_zero(a)),
                ("AffinePoint == AffineRepr::zero()", *a == <Af as AffineRepr>::zero()),
                ("AffinePoint == default()", *a == Af::default()),
                ("AffineRepr::xy().is_none()", a.xy().is_none()),
                ("into_group().is_identity()", a.into_group().is_identity()),
            ],
        }
    }
}

#[cfg(feature = "min")]
mod k {
    use super::*;
    #[derive(Clone, Copy)]
    pub enum Obj {
        E(El),
    }
    impl Obj {
        pub fn kind(&self) -> &'static str {
            "Element"
        }
        pub fn as_el(&self) -> El {
            match self {
                Obj::E(e) => *e,
            }
        }
    }
    pub const N_CTORS: usize = 6;
    pub fn construct(ctx: &Ctx, which: usize, m: &Pt, src: &Obj, rng: &mut impl RngCore) -> (&'static str, Obj) {
        let c = &ctx.c;
        let bytes = c.encode_spec(m).unwrap();
        let lam = {
            let l = rand_below(rng, &c.f.p);
            if l == b(0) { b(3) } else { l }
        };
        match which % N_CTORS {
            0 => ("Encoding::vartime_decompress", Obj::E(dec(&bytes).expect("valid"))),
            1 => ("TryFrom<&[u8]> for Element", Obj::E(El::try_from(&bytes[..]).expect("valid"))),
            2 => ("hook: rescaled", Obj::E(from_pt_scaled(c, m, &lam))),
            3 => ("hook: other coset member", Obj::E(from_pt_scaled(c, &c.torque(m), &lam))),
            4 => ("TryFrom<[u8;32]> for Element", Obj::E(El::try_from(bytes).expect("valid"))),
            _ => ("copy", *src),
        }
    }
    pub const N_MUTS: usize = 17;
    pub fn mutate(ctx: &Ctx, which: usize, dst: &mut Obj, dm: &Pt, src: &Obj, sm: &Pt, k: &B) -> (&'static str, Pt) {
        use subtle::{Choice, ConditionallySelectable};
        let c = &ctx.c;
        let lk = fr(k);
        let se = src.as_el();
        let Obj::E(e) = dst;
        match which % N_MUTS {
            10 => { e.conditional_assign(&se, Choice::from(1)); ("E.conditional_assign(src, 1)", sm.clone()) }
            11 => { e.conditional_assign(&se, Choice::from(0)); ("E.conditional_assign(src, 0)", dm.clone()) }
            12 => { let mut other = se; El::conditional_swap(e, &mut other, Choice::from(1)); ("conditional_swap(E, src, 1)", sm.clone()) }
            13 => { let mut other = se; El::conditional_swap(&mut other, e, Choice::from(1)); ("conditional_swap(src, E, 1)", sm.clone()) }
            14 => { let mut other = se; El::conditional_swap(e, &mut other, Choice::from(0)); ("conditional_swap(E, src, 0)", dm.clone()) }
            15 => { e.clone_from(&se); ("E.clone_from(&src)", sm.clone()) }
            16 => { let mut v = vec![*e, *e]; v.clone_from_slice(&[se, se]); *e = v[0]; ("[E].clone_from_slice(src)", sm.clone()) }
            0 => { *e += se; ("E += E", c.add(dm, sm)) }
            1 => { *e += &se; ("E += &E", c.add(dm, sm)) }
            2 => { *e -= se; ("E -= E", c.sub(dm, sm)) }
            3 => { *e -= &se; ("E -= &E", c.sub(dm, sm)) }
            4 => { *e *= lk; ("E *= Fr", c.mul(k, dm)) }
            5 => { *e *= &lk; ("E *= &Fr", c.mul(k, dm)) }
            6 => { *e = e.double(); ("E = E.double()", c.double(dm)) }
            7 => { *e = -*e; ("E = -E", c.neg(dm)) }
            8 => { let copy = *e; *e += copy; ("E += itself", c.double(dm)) }
            _ => { let copy = *e; *e -= &copy; ("E -= &itself", c.identity()) }
        }
    }
    pub fn encoders(o: &Obj) -> Vec<(&'static str, Vec<u8>)> {
        let Obj::E(e) = o;
        vec![
            ("Element::vartime_compress", e.vartime_compress().0.to_vec()),
            ("Element::vartime_compress_to_field", e.vartime_compress_to_field().to_bytes().to_vec()),
            ("From<&Element> for Encoding", Encoding::from(e).0.to_vec()),
        ]
    }
    pub fn roundtrip_eq(o: &Obj, bytes: &[u8; 32]) -> Result<bool, String> {
        let Obj::E(e) = o;
        dec(bytes).map(|d| d == *e && *e == d).map_err(|e| format!("{e:?}"))
    }
    pub fn hashes(_o: &Obj) -> (u64, Vec<u8>) {
        (0, vec![])
    }
    pub fn equal(x: &Obj, y: &Obj) -> (bool, bool) {
        let (Obj::E(p), Obj::E(q)) = (x, y);
        (p == q, q == p)
    }
    pub fn not_equal(x: &Obj, y: &Obj) -> Option<bool> {
        let (Obj::E(p), Obj::E(q)) = (x, y);
        Some(p != q)
    }
    pub fn identity_predicates(o: &Obj) -> Vec<(&'static str, bool)> {
        let Obj::E(e) = o;
        vec![("Element::is_identity", e.is_identity()), ("== Element::IDENTITY", *e == El::IDENTITY)]
    }
}
use k::*;

struct Reg {
    o: Obj,
    m: Pt,
    /// how the object came to be (constructor, then every in-place mutation)
    hist: Vec<&'static str>,
}

fn observe(ctx: &Ctx, rec: &mut Rec, prop: &str, modes: u32, r: &Reg) -> Option<Pt> {
    let c = &ctx.c;
    let hist = r.hist.join(" ; ");
    let el = r.o.as_el();
    // the point the object's coordinates actually denote
    let d = match affine_of(c, &el) {
        Ok(d) => d,
        Err(why) => {
            if modes & (DENOTE | ENC | RT) != 0 {
                rec.violation(format!("{prop}:lifecycle:structurally-invalid"), format!("{} after [{hist}] is structurally invalid: {why}", r.o.kind()), json!({"history": hist, "object": el_json(&el)}));
            }
            return None;
        }
    };
    if modes & DENOTE != 0 {
        rec.evals += 1;
        if !(d == r.m || d == c.torque(&r.m)) {
            let last = r.hist.last().copied().unwrap_or("?");
            rec.violation(format!("{prop}:lifecycle:{last}:wrong-element"), format!("{} after [{hist}] does not denote the reference result", r.o.kind()),
                json!({"history": hist, "object": el_json(&el), "expected": pt_json(&r.m)}));
        }
    }
    if modes & (ENC | RT) != 0 {
        let want = c.encode_spec(&d);
        let o = r.o;
        match (want, guarded(move || encoders(&o))) {
            (None, _) => {}
            (Some(_), Err(p)) => rec.violation(format!("{prop}:lifecycle:encoder-panic"), format!("an encoder panicked on a {} after [{hist}]: {p}", r.o.kind()), json!({"history": hist})),
            (Some(want), Ok(list)) => {
                for (name, bytes) in list {
                    rec.evals += 1;
                    rec.form(&format!("lifecycle observer: {name}"));
                    if modes & ENC != 0 && bytes[..] != want[..] {
                        rec.violation(format!("{prop}:lifecycle:{name}:not-spec-encoding"),
                            format!("{name} of a {} after [{hist}] gives {} but its coordinates denote the element encoded as {}", r.o.kind(), hx(&bytes), hx(&want)),
                            json!({"history": hist, "object": el_json(&el)}));
                    }
                }
                if modes & RT != 0 {
                    let o = r.o;
                    match guarded(move || roundtrip_eq(&o, &want)) {
                        Ok(Ok(true)) => {}
                        other => rec.violation(format!("{prop}:lifecycle:round-trip"), format!("decoding the encoding of a {} after [{hist}] does not give back an equal object: {other:?}", r.o.kind()), json!({"history": hist, "object": el_json(&el)})),
                    }
                }
            }
        }
    }
    if modes & EQHASH != 0 {
        let o = r.o;
        match guarded(move || identity_predicates(&o)) {
            Err(p) => rec.violation(format!("{prop}:lifecycle:identity-predicate-panic"), p, json!({"history": hist})),
            Ok(preds) => {
                let is_id = c.is_identity(&d);
                for (name, v) in preds {
                    rec.evals += 1;
                    if v != is_id {
                        rec.violation(format!("{prop}:lifecycle:{name}"), format!("{name} = {v} on a {} after [{hist}] whose coordinates denote {}", r.o.kind(), if is_id { "the identity" } else { "a non-identity element" }),
                            json!({"history": hist, "object": el_json(&el)}));
                    }
                }
            }
        }
    }
    Some(d)
}

fn observe_pairs(ctx: &Ctx, rec: &mut Rec, prop: &str, regs: &[Reg]) {
    let c = &ctx.c;
    let ds: Vec<Option<Pt>> = regs.iter().map(|r| affine_of(c, &r.o.as_el()).ok()).collect();
    let hs: Vec<Option<(u64, Vec<u8>)>> = regs.iter().map(|r| { let o = r.o; guarded(move || hashes(&o)).ok() }).collect();
    for i in 0..regs.len() {
        for j in 0..regs.len() {
            if i == j {
                continue;
            }
            let (Some(di), Some(dj)) = (&ds[i], &ds[j]) else { continue };
            let meq = c.eq(di, dj);
            let (oi, oj) = (regs[i].o, regs[j].o);
            rec.evals += 1;
            if meq {
                rec.count("lifecycle_equal_pairs", 1);
            }
            let hist = format!("[{}] vs [{}]", regs[i].hist.join(" ; "), regs[j].hist.join(" ; "));
            match guarded(move || equal(&oi, &oj)) {
                Err(p) => rec.violation(format!("{prop}:lifecycle:eq-panic"), p, json!({"history": hist})),
                Ok((e1, e2)) => {
                    if let Ok(Some(ne)) = guarded(move || not_equal(&oi, &oj)) {
                        if ne == e1 {
                            rec.violation(format!("{prop}:lifecycle:ne"), format!("!= gives {ne} while == gives {e1}: {hist}"), json!({"a": el_json(&oi.as_el()), "b": el_json(&oj.as_el()), "history": hist}));
                        }
                    }
                    if e1 != meq || e2 != meq {
                        rec.violation(format!("{prop}:lifecycle:eq"), format!("== gives ({e1},{e2}) but the coordinates denote {} elements: {hist}", if meq { "equal" } else { "different" }),
                            json!({"a": el_json(&oi.as_el()), "b": el_json(&oj.as_el()), "history": hist}));
                    }
                }
            }
            if meq && regs[i].o.kind() == regs[j].o.kind() {
                if let (Some(hi), Some(hj)) = (&hs[i], &hs[j]) {
                    if hi != hj {
                        rec.violation(format!("{prop}:lifecycle:hash"), format!("equal {}s hash differently: {hist}", regs[i].o.kind()),
                            json!({"a": el_json(&oi.as_el()), "b": el_json(&oj.as_el()), "history": hist}));
                    }
                }
            }
        }
    }
}

/// ENC mode: objects that the library's own `==` calls equal must have identical encodings (all encoders)
fn observe_pairs_enc(rec: &mut Rec, prop: &str, regs: &[Reg]) {
    let encs: Vec<Option<Vec<(&'static str, Vec<u8>)>>> = regs.iter().map(|r| { let o = r.o; guarded(move || encoders(&o)).ok() }).collect();
    for i in 0..regs.len() {
        for j in (i + 1)..regs.len() {
            let (oi, oj) = (regs[i].o, regs[j].o);
            let Ok((e1, e2)) = guarded(move || equal(&oi, &oj)) else { continue };
            if !(e1 && e2) {
                continue;
            }
            rec.evals += 1;
            if let (Some(a), Some(bb)) = (&encs[i], &encs[j]) {
                let (fa, fb) = (&a[0].1, &bb[0].1);
                if fa != fb {
                    rec.violation(format!("{prop}:lifecycle:equal-but-encoded-differently"), format!("two objects compare == but encode as {} and {}: [{}] vs [{}]", hx(fa), hx(fb), regs[i].hist.join(" ; "), regs[j].hist.join(" ; ")),
                        json!({"a": el_json(&oi.as_el()), "b": el_json(&oj.as_el())}));
                }
            }
        }
    }
}

/// run `nprog` lifecycle programs on worker `w` of `n`
pub fn programs(ctx: &Ctx, rec: &mut Rec, prop: &str, modes: u32, w: usize, n: usize, nprog: usize, zoo: &[SE]) {
    let c = &ctx.c;
    let mut rng = rng_for(ctx.seed, prop, w, 77);
    for pi in 0..nprog {
        if pi % n != w {
            continue;
        }
        rec.count("lifecycle_programs", 1);
        // register file: objects made by every constructor in turn
        let mut regs: Vec<Reg> = Vec::new();
        let nregs = 5;
        for ri in 0..nregs {
            let z = &zoo[rand_range(&mut rng, zoo.len())];
            let which = pi * nregs + ri;
            let src = Obj::E(z.l);
            let m = z.m.clone();
            let mut r2 = rng_for(ctx.seed, prop, w, 1000 + (pi * 16 + ri) as u64);
            match guarded(|| construct(ctx, which, &m, &src, &mut r2)) {
                Ok((name, o)) => {
                    rec.form(&format!("lifecycle constructor: {name}"));
                    regs.push(Reg { o, m, hist: vec![name] });
                }
                Err(p) => {
                    rec.violation(format!("{prop}:lifecycle:constructor-panic"), format!("constructing an object from a valid element panicked: {p}"), json!({"model": pt_json(&z.m)}));
                }
            }
        }
        if regs.len() < 2 {
            continue;
        }
        for r in &regs {
            observe(ctx, rec, prop, modes, r);
        }
        let steps = 6 + rand_range(&mut rng, 20);
        for step in 0..steps {
            let i = rand_range(&mut rng, regs.len());
            let j = rand_range(&mut rng, regs.len());
            let k = match rand_range(&mut rng, 5) {
                0 => b(rand_range(&mut rng, 4) as u64),
                1 => &c.r - b(1),
                _ => rand_below(&mut rng, &c.r),
            };
            if rand_range(&mut rng, 5) == 0 {
                // replace register i by a freshly constructed object of register j's element
                let (src, m) = (regs[j].o, regs[j].m.clone());
                let which = rand_range(&mut rng, N_CTORS);
                let mut r2 = rng_for(ctx.seed, prop, w, 5000 + (pi * 64 + step) as u64);
                // the tracked point of a conversion is the source's; decoders get encodeSpec of it
                if let Ok((name, o)) = guarded(|| construct(ctx, which, &m, &src, &mut r2)) {
                    rec.form(&format!("lifecycle constructor: {name}"));
                    let mut hist = regs[j].hist.clone();
                    if hist.len() > 12 {
                        hist.drain(0..hist.len() - 12);
                    }
                    hist.push(name);
                    regs[i] = Reg { o, m, hist };
                }
            } else {
                let (src, sm) = (regs[j].o, regs[j].m.clone());
                let dm = regs[i].m.clone();
                let mut dst = regs[i].o;
                let which = rand_range(&mut rng, N_MUTS * 7);
                let res = guarded(move || {
                    let (name, m) = mutate(ctx, which, &mut dst, &dm, &src, &sm, &k);
                    (name, m, dst)
                });
                match res {
                    Ok((name, m, dst)) => {
                        rec.form(&format!("lifecycle mutator: {name}"));
                        rec.count("lifecycle_steps", 1);
                        regs[i].o = dst;
                        regs[i].m = m;
                        if regs[i].hist.len() > 12 {
                            let cut = regs[i].hist.len() - 12;
                            regs[i].hist.drain(0..cut);
                        }
                        regs[i].hist.push(name);
                    }
                    Err(p) => {
                        rec.violation(format!("{prop}:lifecycle:mutator-panic"), format!("an in-place operation panicked: {p}"), json!({"history": regs[i].hist.join(" ; ")}));
                        continue;
                    }
                }
            }
            rec.eval(&("lifecycle", regs[i].m.x.to_bytes_le(), regs[i].hist.clone()), false);
            observe(ctx, rec, prop, modes, &regs[i]);
            if modes & EQHASH != 0 && step % 4 == 3 {
                observe_pairs(ctx, rec, prop, &regs);
            }
        }
        if modes & EQHASH != 0 {
            observe_pairs(ctx, rec, prop, &regs);
        }
        if modes & ENC != 0 {
            observe_pairs_enc(rec, prop, &regs);
        }
        if pi < 2 {
            rec.sample(json!({"lifecycle_program": pi, "registers": regs.iter().map(|r| json!({"kind": r.o.kind(), "history": r.hist.join(" ; "), "model_x": hexs(&r.m.x)})).collect::<Vec<_>>()}));
        }
    }
}
