//! Field-form catalogue: every arithmetic / conversion form the library offers for Fq, Fr, Fp,
//! by name, behind one harness-side trait so that the oracles are written once.
#![allow(dead_code)]
use crate::ad::*;
use crate::model::{from_le, Fld, B};
use crate::sh::Ctx;

#[derive(Clone, Copy, PartialEq, Eq, Debug)]
pub enum Op2 {
    Add,
    Sub,
    Mul,
    Div,
}
#[derive(Clone, Copy, PartialEq, Eq, Debug)]
pub enum Op1 {
    Neg,
    Square,
    Double,
    Id,
}
#[derive(Clone, Copy, PartialEq, Eq, Debug)]
pub enum FoldKind {
    Sum,
    Product,
    SumOfProducts,
    /// resumable iterator with a `None` after the first ceil(len/2) items: (sum of the items before
    /// the gap) - (sum of the items after it, obtained by a second call on the same iterator)
    SplitSum,
    /// same for products: (product before the gap) * (product after the gap)^2
    SplitProduct,
}
/// An iterator that is not fused: it yields `items[..gap]`, then `None` once, then `items[gap..]`,
/// then `None` for good. `Sum`/`Product` must stop at the first `None` and leave the rest alone.
pub struct Burst<'a, T> {
    pub items: &'a [T],
    pub pos: usize,
    pub gap: usize,
    pub paused: bool,
}
impl<'a, T: Copy> Iterator for Burst<'a, T> {
    type Item = T;
    fn next(&mut self) -> Option<T> {
        if self.pos == self.gap && !self.paused {
            self.paused = true;
            return None;
        }
        let r = self.items.get(self.pos).copied();
        if r.is_some() {
            self.pos += 1;
        }
        r
    }
}
pub struct Bin<F> {
    pub name: &'static str,
    pub op: Op2,
    pub f: fn(F, F) -> F,
}
pub struct Un<F> {
    pub name: &'static str,
    pub op: Op1,
    pub f: fn(F) -> F,
}
pub struct FoldF<F> {
    pub name: &'static str,
    pub kind: FoldKind,
    pub f: fn(&[F], &[F]) -> F,
}
pub struct InvF<F> {
    pub name: &'static str,
    pub f: fn(F) -> Option<F>,
}
pub struct PowF<F> {
    pub name: &'static str,
    pub f: fn(F, &[u64]) -> F,
}
/// serialiser that must emit the canonical little-endian bytes (exactly NBYTES)
pub struct SerF<F> {
    pub name: &'static str,
    pub f: fn(&F) -> Vec<u8>,
}
/// checked parser over byte strings; `exact`: only defined for NBYTES-long input
pub struct ParseF<F> {
    pub name: &'static str,
    pub exact: bool,
    pub f: fn(&[u8]) -> Option<F>,
}
/// reduction of a byte string of any length, interpreted little-endian, modulo p
pub struct ReduceF<F> {
    pub name: &'static str,
    pub f: fn(&[u8]) -> F,
}

pub trait FieldLike: Copy + PartialEq + Send + Sync + core::fmt::Debug + 'static {
    const NAME: &'static str;
    const NBYTES: usize;
    fn fld(ctx: &Ctx) -> &Fld;
    fn from_b(v: &B) -> Self;
    fn to_b(&self) -> B;
    fn bins() -> Vec<Bin<Self>>;
    fn uns() -> Vec<Un<Self>>;
    fn folds() -> Vec<FoldF<Self>>;
    fn invs() -> Vec<InvF<Self>>;
    fn pows() -> Vec<PowF<Self>>;
    fn sers() -> Vec<SerF<Self>>;
    fn parsers() -> Vec<ParseF<Self>>;
    fn reducers() -> Vec<ReduceF<Self>>;
    fn cmp_lib(a: &Self, b: &Self) -> core::cmp::Ordering;
    fn hash_bytes(a: &Self) -> (u64, Vec<u8>);
    fn from_u128(v: u128) -> Vec<(&'static str, Self)>;
    fn rand_inherent(rng: &mut rand_chacha::ChaCha20Rng) -> Self;
    /// zeroize::Zeroize::zeroize
    fn zeroize_field(&mut self);
}

#[derive(Default)]
pub struct ByteRecorder(pub Vec<u8>);
impl std::hash::Hasher for ByteRecorder {
    fn finish(&self) -> u64 {
        0
    }
    fn write(&mut self, bytes: &[u8]) {
        self.0.extend_from_slice(bytes);
    }
}

macro_rules! b4 {
    ($v:ident, $opname:literal, $op:ident, $tr:tt, $tra:tt) => {
        $v.push(Bin { name: concat!("a ", $opname, " b"), op: Op2::$op, f: |a, b| a $tr b });
        $v.push(Bin { name: concat!("a ", $opname, " &b"), op: Op2::$op, f: |a, b| a $tr &b });
        // a `&mut` operand is only borrowed: it must hold the same value afterwards (otherwise the result is poisoned)
        $v.push(Bin { name: concat!("a ", $opname, " &mut b"), op: Op2::$op, f: |a, mut b| { let before = b; let r = a $tr &mut b; if b == before { r } else { r + b + Self::ONE } } });
        $v.push(Bin { name: concat!("a ", $opname, "= b"), op: Op2::$op, f: |mut a, b| { a $tra b; a } });
        $v.push(Bin { name: concat!("a ", $opname, "= &b"), op: Op2::$op, f: |mut a, b| { a $tra &b; a } });
        $v.push(Bin { name: concat!("a ", $opname, "= &mut b"), op: Op2::$op, f: |mut a, mut b| { let before = b; a $tra &mut b; if b == before { a } else { a + b + Self::ONE } } });
    };
}
macro_rules! bin_forms_for {
    ($F:ty) => {{
        let mut v: Vec<Bin<$F>> = Vec::new();
        b4!(v, "+", Add, +, +=);
        b4!(v, "-", Sub, -, -=);
        b4!(v, "*", Mul, *, *=);
        b4!(v, "/", Div, /, /=);
        v.push(Bin { name: "inherent add(self,&)", op: Op2::Add, f: |a, b| <$F>::add(a, &b) });
        v.push(Bin { name: "inherent sub(self,&)", op: Op2::Sub, f: |a, b| <$F>::sub(a, &b) });
        v.push(Bin { name: "inherent mul(self,&)", op: Op2::Mul, f: |a, b| <$F>::mul(a, &b) });
        v
    }};
}

macro_rules! impl_fieldlike {
    ($F:ty, $name:literal, $nbytes:literal, $nlimbs:literal, $to:ident, $from:ident, $fldsel:expr, $has_power:tt, $has_subtle:tt) => {
        impl FieldLike for $F {
            const NAME: &'static str = $name;
            const NBYTES: usize = $nbytes;
            fn fld(ctx: &Ctx) -> &Fld {
                let sel: fn(&Ctx) -> &Fld = $fldsel;
                sel(ctx)
            }
            fn from_b(v: &B) -> Self {
                $to(v)
            }
            fn to_b(&self) -> B {
                $from(self)
            }
            fn bins() -> Vec<Bin<Self>> {
                #[allow(unused_mut)]
                let mut v = bin_forms_for!($F);
                #[cfg(feature = "ark")]
                {
                    use ark_ff::Field;
                    v.push(Bin { name: "Field::sum_of_products([a,1],[1,b]) = a+b", op: Op2::Add, f: |a, b| <$F as Field>::sum_of_products(&[a, <$F>::ONE], &[<$F>::ONE, b]) });
                    v.push(Bin { name: "Field::sum_of_products([a],[b]) = a*b", op: Op2::Mul, f: |a, b| <$F as Field>::sum_of_products(&[a], &[b]) });
                }
                v
            }
            fn uns() -> Vec<Un<Self>> {
                #[allow(unused_mut)]
                let mut v: Vec<Un<$F>> = vec![
                    Un { name: "-a", op: Op1::Neg, f: |a| -a },
                    Un { name: "inherent neg(self)", op: Op1::Neg, f: |a| <$F>::neg(a) },
                    Un { name: "inherent square(&self)", op: Op1::Square, f: |a| <$F>::square(&a) },
                    Un { name: "Default + a", op: Op1::Id, f: |a| <$F>::default() + a },
                    Un { name: "ZERO + a", op: Op1::Id, f: |a| <$F>::ZERO + a },
                    Un { name: "ONE * a", op: Op1::Id, f: |a| <$F>::ONE * a },
                    Un { name: "a / ONE", op: Op1::Id, f: |a| a / <$F>::ONE },
                ];
                #[cfg(feature = "ark")]
                {
                    use ark_ff::{Field, One, Zero};
                    let _ = (<$F as Zero>::zero(), <$F as One>::one());
                    v.push(Un { name: "Field::double", op: Op1::Double, f: |a| Field::double(&a) });
                    v.push(Un { name: "Field::double_in_place", op: Op1::Double, f: |mut a| { Field::double_in_place(&mut a); a } });
                    v.push(Un { name: "Field::neg_in_place", op: Op1::Neg, f: |mut a| { Field::neg_in_place(&mut a); a } });
                    v.push(Un { name: "Field::square", op: Op1::Square, f: |a| Field::square(&a) });
                    v.push(Un { name: "Field::square_in_place", op: Op1::Square, f: |mut a| { Field::square_in_place(&mut a); a } });
                    v.push(Un { name: "Field::frobenius_map_in_place(3)", op: Op1::Id, f: |mut a| { Field::frobenius_map_in_place(&mut a, 3); a } });
                    v.push(Un { name: "Field::frobenius_map(1)", op: Op1::Id, f: |a| Field::frobenius_map(&a, 1) });
                    v.push(Un { name: "Field::from_base_prime_field", op: Op1::Id, f: |a| <$F as Field>::from_base_prime_field(a) });
                    v.push(Un { name: "Field::from_base_prime_field_elems", op: Op1::Id, f: |a| <$F as Field>::from_base_prime_field_elems(&[a]).expect("one element") });
                    v.push(Un { name: "Field::to_base_prime_field_elements", op: Op1::Id, f: |a| { let l: Vec<$F> = Field::to_base_prime_field_elements(&a).collect(); assert_eq!(l.len(), 1); l[0] } });
                    v.push(Un { name: "Zero::zero() + a", op: Op1::Id, f: |a| <$F as Zero>::zero() + a });
                    v.push(Un { name: "One::one() * a", op: Op1::Id, f: |a| <$F as One>::one() * a });
                }
                v
            }
            fn folds() -> Vec<FoldF<Self>> {
                #[allow(unused_mut)]
                let mut v: Vec<FoldF<$F>> = vec![
                    FoldF { name: "Sum<Self>", kind: FoldKind::Sum, f: |a, _| a.iter().copied().sum() },
                    FoldF { name: "Sum<&Self>", kind: FoldKind::Sum, f: |a, _| a.iter().sum() },
                    FoldF { name: "Product<Self>", kind: FoldKind::Product, f: |a, _| a.iter().copied().product() },
                    FoldF { name: "Product<&Self>", kind: FoldKind::Product, f: |a, _| a.iter().product() },
                    // iterators whose size_hint lower bound is 0 although they yield items
                    FoldF { name: "Sum<Self> over filter()", kind: FoldKind::Sum, f: |a, _| a.iter().copied().filter(|_| true).sum() },
                    FoldF { name: "Sum<&Self> over filter()", kind: FoldKind::Sum, f: |a, _| a.iter().filter(|_| true).sum() },
                    FoldF { name: "Product<Self> over filter()", kind: FoldKind::Product, f: |a, _| a.iter().copied().filter(|_| true).product() },
                    FoldF { name: "Product<&Self> over flat_map()", kind: FoldKind::Product, f: |a, _| a.iter().flat_map(|x| Some(x)).product() },
                    // resumable (non-fused) iterators: stop at the first None, leave the remainder in place
                    FoldF { name: "Sum<Self> over a resumable iterator", kind: FoldKind::SplitSum, f: |a, _| {
                        let mut it = Burst { items: a, pos: 0, gap: (a.len() + 1) / 2, paused: false };
                        let first: $F = it.by_ref().sum();
                        let second: $F = it.by_ref().sum();
                        first - second
                    } },
                    FoldF { name: "Sum<&Self> over a resumable iterator", kind: FoldKind::SplitSum, f: |a, _| {
                        let refs: Vec<&$F> = a.iter().collect();
                        let mut it = Burst { items: &refs[..], pos: 0, gap: (a.len() + 1) / 2, paused: false };
                        let first: $F = it.by_ref().sum();
                        let second: $F = it.by_ref().sum();
                        first - second
                    } },
                    FoldF { name: "Product<Self> over a resumable iterator", kind: FoldKind::SplitProduct, f: |a, _| {
                        let mut it = Burst { items: a, pos: 0, gap: (a.len() + 1) / 2, paused: false };
                        let first: $F = it.by_ref().product();
                        let second: $F = it.by_ref().product();
                        first * second * second
                    } },
                    FoldF { name: "Product<&Self> over a resumable iterator", kind: FoldKind::SplitProduct, f: |a, _| {
                        let refs: Vec<&$F> = a.iter().collect();
                        let mut it = Burst { items: &refs[..], pos: 0, gap: (a.len() + 1) / 2, paused: false };
                        let first: $F = it.by_ref().product();
                        let second: $F = it.by_ref().product();
                        first * second * second
                    } },
                ];
                #[cfg(feature = "ark")]
                {
                    use ark_ff::Field;
                    v.push(FoldF { name: "Field::sum_of_products", kind: FoldKind::SumOfProducts, f: |a, b| {
                        // const-generic length: dispatch on the lengths the workload uses
                        fn sop<const N: usize>(a: &[$F], b: &[$F]) -> $F {
                            let mut x = [<$F>::ZERO; N];
                            let mut y = [<$F>::ZERO; N];
                            x.copy_from_slice(a);
                            y.copy_from_slice(b);
                            <$F as Field>::sum_of_products(&x, &y)
                        }
                        match a.len() {
                            0 => sop::<0>(a, b),
                            1 => sop::<1>(a, b),
                            2 => sop::<2>(a, b),
                            3 => sop::<3>(a, b),
                            17 => sop::<17>(a, b),
                            _ => panic!("harness: unsupported sum_of_products length"),
                        }
                    } });
                }
                v
            }
            fn invs() -> Vec<InvF<Self>> {
                #[allow(unused_mut)]
                let mut v: Vec<InvF<$F>> = vec![InvF { name: "inherent inverse(&self)", f: |a| <$F>::inverse(&a) }];
                #[cfg(feature = "ark")]
                {
                    use ark_ff::Field;
                    v.push(InvF { name: "Field::inverse", f: |a| Field::inverse(&a) });
                    v.push(InvF { name: "Field::inverse_in_place", f: |mut a| Field::inverse_in_place(&mut a).map(|x| *x) });
                }
                v
            }
            fn pows() -> Vec<PowF<Self>> {
                #[allow(unused_mut)]
                let mut v: Vec<PowF<$F>> = Vec::new();
                impl_fieldlike!(@power v, $F, $has_power);
                #[cfg(feature = "ark")]
                {
                    use ark_ff::Field;
                    v.push(PowF { name: "Field::pow", f: |a, e| Field::pow(&a, e) });
                    v.push(PowF { name: "Field::pow_with_table", f: |a, e| {
                        let mut table = Vec::new();
                        let mut cur = a;
                        for _ in 0..(64 * e.len().max(1)) {
                            table.push(cur);
                            cur = Field::square(&cur);
                        }
                        <$F as Field>::pow_with_table(&table, e).expect("table long enough")
                    } });
                }
                v
            }
            fn sers() -> Vec<SerF<Self>> {
                #[allow(unused_mut)]
                let mut v: Vec<SerF<$F>> = vec![
                    SerF { name: "to_bytes", f: |a| a.to_bytes().to_vec() },
                    SerF { name: "to_bytes_le", f: |a| a.to_bytes_le().to_vec() },
                    SerF { name: "Debug (big-endian hex)", f: |a| {
                        let s = format!("{a:?}");
                        let inner = s.strip_prefix(concat!($name, "(0x")).and_then(|r| r.strip_suffix(')')).unwrap_or("");
                        let mut bts = hex::decode(inner).unwrap_or_else(|_| s.as_bytes().to_vec());
                        bts.reverse();
                        bts
                    } },
                ];
                #[cfg(feature = "ark")]
                {
                    use ark_ff::{BigInteger, PrimeField, Field};
                    use ark_serialize::{CanonicalSerialize, CanonicalSerializeWithFlags, Compress, EmptyFlags};
                    v.push(SerF { name: "serialize_compressed", f: |a| { let mut o = Vec::new(); a.serialize_compressed(&mut o).unwrap(); assert_eq!(o.len(), a.compressed_size()); o } });
                    v.push(SerF { name: "serialize_uncompressed", f: |a| { let mut o = Vec::new(); a.serialize_uncompressed(&mut o).unwrap(); assert_eq!(o.len(), a.uncompressed_size()); o } });
                    v.push(SerF { name: "serialize_with_mode(No)", f: |a| { let mut o = Vec::new(); a.serialize_with_mode(&mut o, Compress::No).unwrap(); o } });
                    v.push(SerF { name: "serialize_with_flags(EmptyFlags)", f: |a| { let mut o = Vec::new(); a.serialize_with_flags(&mut o, EmptyFlags).unwrap(); assert_eq!(o.len(), a.serialized_size_with_flags::<EmptyFlags>()); o } });
                    v.push(SerF { name: "into_bigint().to_bytes_le()", f: |a| a.into_bigint().to_bytes_le() });
                    v.push(SerF { name: "into_bigint().to_bytes_be() reversed", f: |a| { let mut o = a.into_bigint().to_bytes_be(); o.reverse(); o } });
                    v.push(SerF { name: "BigInt::from(a)", f: |a| { let bi: <$F as PrimeField>::BigInt = (*a).into(); bi.to_bytes_le() } });
                    v.push(SerF { name: "BigUint::from(a)", f: |a| { let bu: num_bigint::BigUint = (*a).into(); crate::model::to_le(&bu, $nbytes) } });
                    v.push(SerF { name: "Display (decimal)", f: |a| {
                        let s = format!("{a}");
                        let v = if s.is_empty() { B::from(0u8) } else { B::parse_bytes(s.as_bytes(), 10).unwrap_or_else(|| B::from(1u8) << 1000) };
                        if v.bits() as usize > 8 * $nbytes { s.into_bytes() } else { crate::model::to_le(&v, $nbytes) }
                    } });
                    v.push(SerF { name: "to_base_prime_field_elements", f: |a| { let l: Vec<$F> = Field::to_base_prime_field_elements(a).collect(); l[0].to_bytes_le().to_vec() } });
                }
                v
            }
            fn parsers() -> Vec<ParseF<Self>> {
                #[allow(unused_mut)]
                let mut v: Vec<ParseF<$F>> = vec![ParseF { name: "from_bytes_checked", exact: true, f: |s| {
                    let mut a = [0u8; $nbytes];
                    a.copy_from_slice(s);
                    <$F>::from_bytes_checked(&a).ok()
                } }];
                #[cfg(feature = "ark")]
                {
                    use ark_ff::{BigInt, PrimeField};
                    use ark_serialize::{CanonicalDeserialize, CanonicalDeserializeWithFlags, Compress, EmptyFlags, Validate};
                    v.push(ParseF { name: "deserialize_compressed", exact: false, f: |s| <$F>::deserialize_compressed(s).ok() });
                    v.push(ParseF { name: "deserialize_uncompressed", exact: false, f: |s| <$F>::deserialize_uncompressed(s).ok() });
                    v.push(ParseF { name: "deserialize_compressed (reader delivering 1..7 bytes per read)", exact: false, f: |s| <$F>::deserialize_compressed(Trickle { data: s, pos: 0, step: 1 + s.len() % 7 }).ok() });
                    v.push(ParseF { name: "deserialize_with_flags::<EmptyFlags> (chained readers)", exact: false, f: |s| {
                        use ark_std::io::Read;
                        let cut = s.len() / 3;
                        <$F>::deserialize_with_flags::<_, EmptyFlags>((&s[..cut]).chain(&s[cut..])).ok().map(|x| x.0)
                    } });
                    v.push(ParseF { name: "deserialize_compressed_unchecked", exact: false, f: |s| <$F>::deserialize_compressed_unchecked(s).ok() });
                    v.push(ParseF { name: "deserialize_with_mode(No,No)", exact: false, f: |s| <$F>::deserialize_with_mode(s, Compress::No, Validate::No).ok() });
                    v.push(ParseF { name: "deserialize_with_flags::<EmptyFlags>", exact: false, f: |s| <$F>::deserialize_with_flags::<_, EmptyFlags>(s).ok().map(|x| x.0) });
                    v.push(ParseF { name: "PrimeField::from_bigint", exact: true, f: |s| {
                        let mut l = [0u64; $nlimbs];
                        for (i, ch) in s.chunks(8).enumerate() {
                            let mut b8 = [0u8; 8];
                            b8[..ch.len()].copy_from_slice(ch);
                            l[i] = u64::from_le_bytes(b8);
                        }
                        <$F as PrimeField>::from_bigint(BigInt::<$nlimbs>(l))
                    } });
                }
                v
            }
            fn reducers() -> Vec<ReduceF<Self>> {
                #[allow(unused_mut)]
                let mut v: Vec<ReduceF<$F>> = vec![ReduceF { name: "from_le_bytes_mod_order (inherent)", f: |s| <$F>::from_le_bytes_mod_order(s) }];
                #[cfg(feature = "ark")]
                {
                    use ark_ff::{Field, PrimeField};
                    v.push(ReduceF { name: "PrimeField::from_le_bytes_mod_order", f: |s| <$F as PrimeField>::from_le_bytes_mod_order(s) });
                    v.push(ReduceF { name: "PrimeField::from_be_bytes_mod_order (reversed input)", f: |s| { let mut r = s.to_vec(); r.reverse(); <$F as PrimeField>::from_be_bytes_mod_order(&r) } });
                    v.push(ReduceF { name: "From<BigUint>", f: |s| <$F>::from(num_bigint::BigUint::from_bytes_le(s)) });
                    v.push(ReduceF { name: "Field::from_random_bytes", f: |s| <$F as Field>::from_random_bytes(s).expect("always Some") });
                }
                v
            }
            fn cmp_lib(a: &Self, b: &Self) -> core::cmp::Ordering {
                let o = Ord::cmp(a, b);
                assert_eq!(Some(o), PartialOrd::partial_cmp(a, b), "partial_cmp disagrees with cmp");
                o
            }
            fn hash_bytes(a: &Self) -> (u64, Vec<u8>) {
                use std::hash::{Hash, Hasher};
                let mut h = std::collections::hash_map::DefaultHasher::new();
                a.hash(&mut h);
                let mut r = ByteRecorder::default();
                a.hash(&mut r);
                (h.finish(), r.0)
            }
            fn from_u128(v: u128) -> Vec<(&'static str, Self)> {
                let mut o: Vec<(&'static str, Self)> = vec![("From<u128>", <$F>::from(v))];
                if v <= u64::MAX as u128 {
                    o.push(("From<u64>", <$F>::from(v as u64)));
                }
                if v <= u32::MAX as u128 {
                    o.push(("From<u32>", <$F>::from(v as u32)));
                }
                if v <= u16::MAX as u128 {
                    o.push(("From<u16>", <$F>::from(v as u16)));
                }
                if v <= u8::MAX as u128 {
                    o.push(("From<u8>", <$F>::from(v as u8)));
                }
                if v <= 1 {
                    o.push(("From<bool>", <$F>::from(v == 1)));
                }
                o
            }
            fn zeroize_field(&mut self) {
                zeroize::Zeroize::zeroize(self)
            }
            fn rand_inherent(rng: &mut rand_chacha::ChaCha20Rng) -> Self {
                <$F>::rand(rng)
            }
        }
    };
    (@power $v:ident, $F:ty, true) => {
        $v.push(PowF { name: "Fq::power", f: |a, e| a.power(e) });
        $v.push(PowF { name: "Fq::power(Vec)", f: |a, e| a.power(e.to_vec()) });
    };
    (@power $v:ident, $F:ty, false) => {};
}

impl_fieldlike!(Fq, "Fq", 32, 4, fq, fqb, |c| &c.c.f, true, true);
impl_fieldlike!(Fr, "Fr", 32, 4, fr, frb, |c| &c.fr, false, false);
impl_fieldlike!(Fp, "Fp", 48, 6, fp, fpb, |c| &c.fp, false, false);

pub fn le_int(s: &[u8]) -> B {
    from_le(s)
}

#[cfg(feature = "ark")]
pub trait FL: FieldLike + ark_ff::PrimeField {}
#[cfg(feature = "ark")]
impl<T: FieldLike + ark_ff::PrimeField> FL for T {}
#[cfg(feature = "min")]
pub trait FL: FieldLike {}
#[cfg(feature = "min")]
impl<T: FieldLike> FL for T {}

/// a reader that hands out its data a few bytes per `read` call
pub struct Trickle<'a> {
    pub data: &'a [u8],
    pub pos: usize,
    pub step: usize,
}
impl<'a> std::io::Read for Trickle<'a> {
    fn read(&mut self, buf: &mut [u8]) -> std::io::Result<usize> {
        let n = buf.len().min(self.step).min(self.data.len() - self.pos);
        buf[..n].copy_from_slice(&self.data[self.pos..self.pos + n]);
        self.pos += n;
        Ok(n)
    }
}
