//! C07 — hash-to-group equals the specified Elligator 2 map.
use crate::ad::*;
use crate::model::{b, hexs, B};
use crate::mon::{guarded, par, rng_for, Rec};
use crate::sh::*;
use crate::zoo::{field_random, field_zoo, rand_range};
use serde_json::json;

const P: &str = "C07";

pub fn run(ctx: &Ctx, rec: &mut Rec) {
    let c = &ctx.c;
    let f = &c.f;
    let mut zrng = rng_for(ctx.seed, P, 999, 0);
    let mut inputs = field_zoo(f);
    inputs.extend(field_random(f, &mut zrng, ctx.scale(60_000, 2_000_000)));
    for cl in ["zero", "one", "p-1", "root-of-unity-2^k", "small-int", "random", "branch:square", "branch:nonsquare"] {
        rec.declare_class(cl);
    }
    rec.declare_form("encode_to_curve");
    rec.declare_form("hash_to_curve");
    par(rec, |w, n, rec| {
        for (i, (r0, class)) in inputs.iter().enumerate() {
            if i % n != w {
                continue;
            }
            rec.class(class);
            rec.form("encode_to_curve");
            rec.eval(&(r0.to_bytes_le(),), r0 == &b(0));
            let spec = c.elligator_spec(r0);
            let (want, sq) = match spec {
                None => {
                    rec.count("spec_undefined", 1);
                    continue;
                }
                Some(x) => x,
            };
            rec.class(if sq { "branch:square" } else { "branch:nonsquare" });
            let lr = fq(r0);
            let lneg = fq(&f.neg(r0));
            rec.event(format!("encode_to_curve r0={}", hexs(r0)));
            let got = guarded(|| El::encode_to_curve(&lr));
            let out = judge(ctx, rec, P, "encode_to_curve", got, &want, json!({"r0": hexs(r0), "class": class, "n1_square": sq}));
            // invariance under r0 -> -r0
            let got2 = guarded(|| El::encode_to_curve(&lneg));
            let out2 = judge(ctx, rec, P, "encode_to_curve(-r0)", got2, &want, json!({"r0": hexs(&f.neg(r0)), "class": class}));
            if let (Some(a), Some(bb)) = (out, out2) {
                if a != bb || enc(&a) != enc(&bb) {
                    rec.violation(format!("{P}:sign-symmetry"), "map(r0) != map(-r0)", json!({"r0": hexs(r0)}));
                }
                // validity: in 2E (model), sampled
                if i % 16 == 0 {
                    rec.count("in_2E_checks", 1);
                    match affine_of(c, &a) {
                        Ok(p) => {
                            if !c.in_2e(&p) {
                                rec.violation(format!("{P}:output-outside-group"), "Elligator output is not in 2E", json!({"r0": hexs(r0), "out": el_json(&a)}));
                            }
                        }
                        Err(why) => rec.violation(format!("{P}:output-invalid"), why, json!({"r0": hexs(r0)})),
                    }
                }
            }
            if i < 3 {
                rec.sample(json!({"r0": hexs(r0), "class": class, "n1_square": sq, "expected_encoding": hex::encode(c.encode_spec(&want).unwrap())}));
            }
        }
    });
    // two-input hash = map(a) + map(b)
    let zoo = field_zoo(f);
    par(rec, |w, n, rec| {
        let mut rng = rng_for(ctx.seed, P, w, 2);
        let reps = ctx.scale(20_000, 400_000);
        for rep in 0..reps {
            if rep % n != w {
                continue;
            }
            let pick = |rng: &mut rand_chacha::ChaCha20Rng| -> B {
                if rand_range(rng, 3) == 0 {
                    zoo[rand_range(rng, zoo.len())].0.clone()
                } else {
                    crate::zoo::rand_below(rng, &f.p)
                }
            };
            let a = pick(&mut rng);
            let bb = match rep % 7 {
                0 => a.clone(),
                1 => f.neg(&a),
                _ => pick(&mut rng),
            };
            let (Some((ma, _)), Some((mb, _))) = (c.elligator_spec(&a), c.elligator_spec(&bb)) else { continue };
            let want = c.add(&ma, &mb);
            rec.form("hash_to_curve");
            rec.eval(&("hash", a.to_bytes_le(), bb.to_bytes_le()), false);
            let (la, lb) = (fq(&a), fq(&bb));
            let got = guarded(|| El::hash_to_curve(&la, &lb));
            judge(ctx, rec, P, "hash_to_curve", got, &want, json!({"a": hexs(&a), "b": hexs(&bb)}));
        }
    });
    rec.check_coverage();
}
