//! C07 — hash-to-group equals the specified Elligator 2 map.
use crate::ad::*;
use crate::model::{b, hexs, B};
use crate::mon::{guarded, par, rng_for, Rec};
use crate::sh::*;
use crate::zoo::{field_random, field_zoo, rand_range};
use serde_json::json;

const P: &str = "C07";

pub fn run(ctx: &Ctx, rec: &mut Rec) {
    let c = &ctx.c;
    let f = &c.f;
    let mut zrng = rng_for(ctx.seed, P, 999, 0);
    let mut inputs: Vec<(B, &'static str)> = field_zoo(f);
    inputs.extend(field_random(f, &mut zrng, ctx.scale(60_000, 2_000_000)));
    // engineered first intermediate: r0 with r = zeta * r0^2 equal to a member of the field zoo (the map works on
    // r, not on r0: limb patterns, internal-form extremes and quotient boundaries have to be placed there)
    {
        let zi = f.inv(&c.zeta).unwrap();
        let mut eng: Vec<(B, &'static str)> = Vec::new();
        for (v, _) in field_zoo(f) {
            if let Some(r0) = f.sqrt(&f.mul(&v, &zi)) {
                eng.push((r0, "engineered-r"));
            }
        }
        // ... or to a rational expression of small depth in the constants of the curve (roots of the linear factors
        // of the map's numerators and denominators, and what a transposed constant would single out)
        for v in crate::zoo::constant_expressions(c) {
            if let Some(r0) = f.sqrt(&f.mul(&v, &zi)) {
                eng.push((r0, "engineered-r"));
            }
            eng.push((v, "constant-expression"));
        }
        rec.declare_class("engineered-r");
        rec.declare_class("constant-expression");
        inputs.extend(eng);
    }
    for cl in ["zero", "one", "p-1", "root-of-unity-2^k", "small-int", "random", "branch:square", "branch:nonsquare", "engineered-sqrt-exponent"] {
        rec.declare_class(cl);
    }
    // engineered inputs: r0 for which the value handed to the square root inside the map has a
    // chosen 2-primary component (every value of every table window, powers of two, 0, all-ones)
    {
        let sy = crate::c09::sylow(ctx);
        let targets = crate::c09::structured_exponents(ctx.scale(1, 1));
        let found: std::sync::Mutex<Vec<(B, &'static str)>> = std::sync::Mutex::new(Vec::new());
        par(rec, |w, n, rec| {
            let mut rng = rng_for(ctx.seed, P, w, 5);
            let mut mine = Vec::new();
            for (i, e) in targets.iter().enumerate() {
                if i % n != w {
                    continue;
                }
                for _try in 0..10 {
                    let r0s = crate::eng::elligator_r0_for_exponent(ctx, &sy, e, &mut rng);
                    if r0s.is_empty() {
                        continue;
                    }
                    for r0 in r0s {
                        // confirm (model side) what is actually presented to the square root
                        let r = f.mul(&c.zeta, &f.sq(&r0));
                        let dma = f.sub(&c.d, &c.a);
                        let den = f.mul(&f.sub(&f.mul(&c.d, &r), &dma), &f.sub(&f.mul(&dma, &r), &c.d));
                        let num = f.mul(&f.add(&r, &b(1)), &f.sub(&c.a, &f.mul(&b(2), &c.d)));
                        let x = f.mul(&num, &den);
                        if let Some(xi) = f.inv(&x) {
                            let seen = crate::c09::dlog2(ctx, &sy, &f.pow(&xi, &sy.m));
                            if &seen != e {
                                rec.inconclusive("harness: engineered Elligator input does not have the intended exponent");
                            }
                            crate::c09::record_windows_as(rec, "elligator-sqrt-window", &seen);
                        }
                        mine.push((r0, "engineered-sqrt-exponent"));
                    }
                    break;
                }
            }
            found.lock().unwrap().extend(mine);
        });
        let mut v = found.into_inner().unwrap();
        v.sort();
        rec.count("engineered_r0", v.len() as u64);
        inputs.extend(v);
        for name in ["e", "-e"] {
            for off in crate::c09::WINDOW_OFFSETS {
                let key = format!("elligator-sqrt-window[{name}>>{off}]");
                let want = 1usize << (47 - off).min(8);
                let have = rec.sets.get(&key).map(|s| s.len()).unwrap_or(0);
                if have < want {
                    rec.inconclusive(format!("engineered Elligator inputs: {key} saw {have}/{want} values"));
                }
            }
        }
    }
    rec.declare_form("encode_to_curve");
    rec.declare_form("hash_to_curve");
    par(rec, |w, n, rec| {
        for (i, (r0, class)) in inputs.iter().enumerate() {
            if i % n != w {
                continue;
            }
            rec.class(class);
            rec.form("encode_to_curve");
            rec.eval(&(r0.to_bytes_le(),), r0 == &b(0));
            let spec = c.elligator_spec(r0);
            let (want, sq) = match spec {
                None => {
                    rec.count("spec_undefined", 1);
                    continue;
                }
                Some(x) => x,
            };
            rec.class(if sq { "branch:square" } else { "branch:nonsquare" });
            let lr = fq(r0);
            let lneg = fq(&f.neg(r0));
            rec.event(format!("encode_to_curve r0={}", hexs(r0)));
            let got = guarded(|| El::encode_to_curve(&lr));
            let out = judge(ctx, rec, P, "encode_to_curve", got, &want, json!({"r0": hexs(r0), "class": class, "n1_square": sq}));
            // invariance under r0 -> -r0
            let got2 = guarded(|| El::encode_to_curve(&lneg));
            let out2 = judge(ctx, rec, P, "encode_to_curve(-r0)", got2, &want, json!({"r0": hexs(&f.neg(r0)), "class": class}));
            if let (Some(a), Some(bb)) = (out, out2) {
                if a != bb || enc(&a) != enc(&bb) {
                    rec.violation(format!("{P}:sign-symmetry"), "map(r0) != map(-r0)", json!({"r0": hexs(r0)}));
                }
                // validity: in 2E (model), sampled
                if i % 16 == 0 {
                    rec.count("in_2E_checks", 1);
                    match affine_of(c, &a) {
                        Ok(p) => {
                            if !c.in_2e(&p) {
                                rec.violation(format!("{P}:output-outside-group"), "Elligator output is not in 2E", json!({"r0": hexs(r0), "out": el_json(&a)}));
                            }
                        }
                        Err(why) => rec.violation(format!("{P}:output-invalid"), why, json!({"r0": hexs(r0)})),
                    }
                }
            }
            if i < 3 {
                rec.sample(json!({"r0": hexs(r0), "class": class, "n1_square": sq, "expected_encoding": hex::encode(c.encode_spec(&want).unwrap())}));
            }
        }
    });
    // two-input hash = map(a) + map(b)
    let zoo = field_zoo(f);
    par(rec, |w, n, rec| {
        let mut rng = rng_for(ctx.seed, P, w, 2);
        let reps = ctx.scale(20_000, 400_000);
        for rep in 0..reps {
            if rep % n != w {
                continue;
            }
            let pick = |rng: &mut rand_chacha::ChaCha20Rng| -> B {
                if rand_range(rng, 3) == 0 {
                    zoo[rand_range(rng, zoo.len())].0.clone()
                } else {
                    crate::zoo::rand_below(rng, &f.p)
                }
            };
            let a = pick(&mut rng);
            // algebraically related second inputs: +-c * a^(+-1) for small structural constants c
            let inv_or = |v: &B| f.inv(v).unwrap_or_else(|| b(0));
            let consts = [b(1), c.zeta.clone(), inv_or(&c.zeta), f.sq(&c.zeta), c.d.clone(), f.sub(&c.a, &c.d), b(2)];
            let bb = match rep % 11 {
                0 => a.clone(),
                1 => f.neg(&a),
                2 | 3 | 4 | 5 => {
                    let k = &consts[rand_range(&mut rng, consts.len())];
                    let base = if rep % 2 == 0 { inv_or(&a) } else { a.clone() };
                    let v = f.mul(k, &base);
                    if rand_range(&mut rng, 2) == 0 { v } else { f.neg(&v) }
                }
                _ => pick(&mut rng),
            };
            let (Some((ma, _)), Some((mb, _))) = (c.elligator_spec(&a), c.elligator_spec(&bb)) else { continue };
            let want = c.add(&ma, &mb);
            rec.form("hash_to_curve");
            rec.eval(&("hash", a.to_bytes_le(), bb.to_bytes_le()), false);
            let (la, lb) = (fq(&a), fq(&bb));
            let got = guarded(|| El::hash_to_curve(&la, &lb));
            judge(ctx, rec, P, "hash_to_curve", got, &want, json!({"a": hexs(&a), "b": hexs(&bb)}));
        }
    });
    // engineered radicands: inputs whose inner value num*den (or its inverse, which is what reaches the square
    // root) is a structured value (zero / all-ones low limbs, 2-adic relations with q), and pairs of inputs
    // r2 != +-r1 that *share* their radicand (the cubic in r has up to three roots) although their images differ
    rec.declare_class("engineered-radicand");
    rec.declare_class("shared-radicand pair");
    par(rec, |w, n, rec| {
        let mut rng = rng_for(ctx.seed, P, w, 9);
        let targets = crate::eng::intermediate_targets(&f.p);
        for (ti, tg) in targets.iter().enumerate() {
            if ti % n != w || (ti / n) % ctx.scale(3, 1) != 0 {
                continue;
            }
            for x in [tg.clone(), f.inv(tg).unwrap_or(b(1))] {
                for r0 in crate::eng::elligator_r0_for_radicand(ctx, &x, &mut rng).into_iter().take(2) {
                    let Some((want, _)) = c.elligator_spec(&r0) else { continue };
                    rec.class("engineered-radicand");
                    rec.form("encode_to_curve");
                    rec.eval(&("eng-radicand", r0.to_bytes_le()), false);
                    let lr = fq(&r0);
                    let got = guarded(|| El::encode_to_curve(&lr));
                    judge(ctx, rec, P, "encode_to_curve", got, &want, json!({"r0": hexs(&r0), "class": "engineered radicand"}));
                }
            }
        }
        let reps = ctx.scale(120, 3000);
        for rep in 0..reps {
            if rep % n != w {
                continue;
            }
            let r1 = crate::zoo::rand_below(&mut rng, &f.p);
            let x = crate::eng::elligator_radicand(ctx, &r1);
            let (Some((m1, _)), partners) = (c.elligator_spec(&r1), crate::eng::elligator_r0_for_radicand(ctx, &x, &mut rng)) else { continue };
            for r2 in partners {
                if r2 == r1 || r2 == f.neg(&r1) {
                    continue;
                }
                let Some((m2, _)) = c.elligator_spec(&r2) else { continue };
                rec.class("shared-radicand pair");
                for (x1, x2, want) in [(&r1, &r2, c.add(&m1, &m2)), (&r2, &r1, c.add(&m2, &m1))] {
                    rec.form("hash_to_curve");
                    rec.eval(&("shared-radicand", x1.to_bytes_le(), x2.to_bytes_le()), false);
                    let (la, lb) = (fq(x1), fq(x2));
                    let got = guarded(|| El::hash_to_curve(&la, &lb));
                    judge(ctx, rec, P, "hash_to_curve", got, &want, json!({"a": hexs(x1), "b": hexs(x2), "class": "inputs sharing their radicand"}));
                }
            }
        }
    });
    // Elligator collisions: distinct inputs (r2 != +-r1) with the same image, and inputs whose images
    // are opposite: hash_to_curve must give 2P resp. the identity. The preimage sets are computed in the
    // model by inverting the map (up to 8 preimages per element).
    rec.declare_class("elligator-collision:same-image");
    rec.declare_class("elligator-collision:opposite-image");
    par(rec, |w, n, rec| {
        let mut rng = rng_for(ctx.seed, P, w, 7);
        let targets = ctx.scale(48, 1500);
        for ti in 0..targets {
            if ti % n != w {
                continue;
            }
            let seed_r0 = if ti < zoo.len().min(16) { zoo[(ti * 37) % zoo.len()].0.clone() } else { crate::zoo::rand_below(&mut rng, &f.p) };
            let Some((pt, _)) = c.elligator_spec(&seed_r0) else { continue };
            if pt.x == b(0) {
                continue;
            }
            let pre = crate::eng::elligator_preimages(ctx, &pt, &mut rng);
            let pre_neg = crate::eng::elligator_preimages(ctx, &c.neg(&pt), &mut rng);
            if !pre.contains(&seed_r0) {
                rec.inconclusive("harness: Elligator inversion did not recover the input it started from");
                continue;
            }
            rec.count("preimage_sets", 1);
            rec.count("preimages_found", (pre.len() + pre_neg.len()) as u64);
            rec.set_insert("preimage_set_sizes", pre.len() as u64);
            // every preimage maps to the element (one-input map)
            for r0 in pre.iter() {
                let lr = fq(r0);
                rec.form("encode_to_curve");
                rec.eval(&("preimage", r0.to_bytes_le()), false);
                let got = guarded(|| El::encode_to_curve(&lr));
                judge(ctx, rec, P, "encode_to_curve", got, &pt, json!({"r0": hexs(r0), "class": "elligator-preimage"}));
            }
            let want2 = c.double(&pt);
            for (i, r1) in pre.iter().enumerate() {
                for r2 in pre.iter().skip(i + 1) {
                    if r2 == &f.neg(r1) {
                        continue;
                    }
                    rec.class("elligator-collision:same-image");
                    for (x, y) in [(r1, r2), (r2, r1)] {
                        rec.form("hash_to_curve");
                        rec.eval(&("hash-collision", x.to_bytes_le(), y.to_bytes_le()), false);
                        let (la, lb) = (fq(x), fq(y));
                        let got = guarded(|| El::hash_to_curve(&la, &lb));
                        judge(ctx, rec, P, "hash_to_curve", got, &want2, json!({"a": hexs(x), "b": hexs(y), "class": "distinct inputs, same Elligator image"}));
                    }
                }
                for r2 in pre_neg.iter() {
                    rec.class("elligator-collision:opposite-image");
                    rec.form("hash_to_curve");
                    rec.eval(&("hash-opposite", r1.to_bytes_le(), r2.to_bytes_le()), false);
                    let (la, lb) = (fq(r1), fq(r2));
                    let got = guarded(|| El::hash_to_curve(&la, &lb));
                    judge(ctx, rec, P, "hash_to_curve", got, &c.identity(), json!({"a": hexs(r1), "b": hexs(r2), "class": "inputs with opposite Elligator images"}));
                }
            }
        }
    });
    rec.check_coverage();
}
