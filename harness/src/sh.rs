//! Shadowed values: (library value, model value) pairs and the common result oracle.
#![allow(dead_code)]
use crate::ad::*;
use crate::model::{b, hexs, Curve, Fld, Pt, B};
use crate::mon::{hx, Rec};
use crate::zoo::{self, MEl};
use rand_core::RngCore;
use serde_json::json;

pub struct Ctx {
    pub c: Curve,
    pub fr: Fld,
    pub fp: Fld,
    pub g: Pt,
    pub tier_thorough: bool,
    pub seed: u64,
}

impl Ctx {
    pub fn new(seed: u64, thorough: bool) -> Self {
        let c = Curve::decaf377();
        let fr = Fld::new(c.r.clone());
        let fp = Fld::new(crate::model::derive_p());
        let g = c.decode_spec_fe(&b(8)).unwrap();
        Ctx { c, fr, fp, g, tier_thorough: thorough, seed }
    }
    /// scale factor for workload sizes
    pub fn scale(&self, quick: usize, thorough: usize) -> usize {
        if self.tier_thorough {
            thorough
        } else {
            quick
        }
    }
}

/// A shadowed element: library value + the model point it must denote.
#[derive(Clone)]
pub struct SE {
    pub l: El,
    pub m: Pt,
    pub class: &'static str,
}

impl SE {
    pub fn key(&self) -> (Vec<u8>, Vec<u8>) {
        (self.m.x.to_bytes_le(), self.m.y.to_bytes_le())
    }
}

/// Presentations of one model point to the library: Z=1, projective rescalings, other rep.
pub fn present(c: &Curve, m: &MEl, lambda: Option<&B>) -> SE {
    let l = match lambda {
        None => from_pt(c, &m.pt),
        Some(l) => from_pt_scaled(c, &m.pt, l),
    };
    SE { l, m: m.pt.clone(), class: m.class }
}

/// shadowed element zoo: every model zoo member, Z = 1 and with a rescaling, plus the
/// other coset representative of each.
pub fn shadow_zoo(ctx: &Ctx, rng: &mut impl RngCore, nrand: usize) -> Vec<SE> {
    let c = &ctx.c;
    let zoo = zoo::element_zoo(c, rng, nrand);
    let lam = zoo::lambdas(c, rng, 3);
    let mut out = Vec::new();
    for (i, m) in zoo.iter().enumerate() {
        out.push(present(c, m, None));
        let l = &lam[i % lam.len()];
        let mut s = present(c, m, Some(l));
        if !(l == &b(1)) {
            s.class = "rescaled";
        }
        out.push(s);
        // engineered rescaling: lambda chosen so that X (or T, Y) of the presentation is a value
        // whose Montgomery form has an all-ones / zero limb (borrow and carry paths of the backends)
        if m.pt.x != b(0) && m.pt.y != b(0) {
            let mut targets = zoo::montgomery_limb_values(&c.f, rng, 1);
            {
                // ... or is symmetric under a fold of its limbs (a zero test that folds with the wrong operator
                // takes such a coordinate for zero), as internal form and as canonical integer
                let rinv = c.f.inv(&((b(1) << 256) % &c.f.p)).unwrap();
                let sym = zoo::limb_fold_symmetric(&c.f.p);
                for (k, v) in sym.iter().enumerate() {
                    if k % 2 == 0 { targets.push(c.f.mul(v, &rinv)); } else { targets.push(v.clone()); }
                }
            }
            // pass 0 over the targets shapes X, pass 1 shapes T, pass 2 shapes Y, then X again
            let t = &targets[i % targets.len()];
            let coord = match (i / targets.len()) % 3 {
                0 => m.pt.x.clone(),
                1 => c.f.mul(&m.pt.x, &m.pt.y),
                _ => m.pt.y.clone(),
            };
            if let Some(ci) = c.f.inv(&coord) {
                let l = c.f.mul(t, &ci);
                if l != b(0) {
                    let mut s = present(c, m, Some(&l));
                    s.class = "rescaled-montgomery-limb-pattern";
                    out.push(s);
                }
            }
        }
        let other = MEl { pt: c.torque(&m.pt), class: "other-rep" };
        out.push(present(c, &other, if i % 2 == 0 { None } else { Some(&lam[(i + 1) % lam.len()]) }));
    }
    // every projective coordinate in turn equal to a distinguished constant (1, -1, 2, and the values whose
    // internal form is the integer 1 / whose canonical form is the internal form of 1) while Z != 1: a guard
    // that recognises "normalised" or "one" on the wrong coordinate or the wrong representation
    {
        let r = (b(1) << 256) % &c.f.p;
        let rinv = c.f.inv(&r).unwrap();
        let consts = [b(1), &c.f.p - b(1), b(2), r.clone(), rinv.clone(), c.f.mul(&rinv, &rinv)];
        let picks: Vec<&MEl> = zoo.iter().filter(|m| m.pt.x != b(0) && m.pt.y != b(0)).collect();
        let n = picks.len();
        let idx: Vec<usize> = if n == 0 { vec![] } else { vec![0, 1 % n, 2 % n, n / 2, n - 1] };
        for (j, &ix) in idx.iter().enumerate() {
            let m = picks[ix];
            let m = if j % 2 == 1 { MEl { pt: c.torque(&m.pt), class: m.class } } else { MEl { pt: m.pt.clone(), class: m.class } };
            for coord in [m.pt.x.clone(), m.pt.y.clone(), b(1), c.f.mul(&m.pt.x, &m.pt.y)] {
                let ci = c.f.inv(&coord).unwrap();
                for t in &consts {
                    let l = c.f.mul(t, &ci);
                    if l == b(1) {
                        continue;
                    }
                    let mut s = present(c, &m, Some(&l));
                    s.class = "rescaled-coordinate-is-constant";
                    out.push(s);
                }
            }
        }
        // ... each coordinate equal to (or the negative of) an intermediate of the encoder that scales differently
        // from it: u2 = |v u1| and the encoding s itself (both invariant), u1 = (X+T)(X-T) (quadratic). A fused or
        // factored expression over a coordinate and an intermediate meets its "operands coincide" case here.
        for (j, &ix) in idx.iter().enumerate().take(3) {
            let m0 = picks[ix];
            let m = if j % 2 == 1 { MEl { pt: c.torque(&m0.pt), class: m0.class } } else { MEl { pt: m0.pt.clone(), class: m0.class } };
            let f = &c.f;
            let (x, y) = (&m.pt.x, &m.pt.y);
            let t = f.mul(x, y);
            let u1 = f.mul(&f.sq(x), &f.sub(&b(1), &f.sq(y)));
            let arg = f.mul(&f.mul(&u1, &f.sub(&c.a, &c.d)), &f.sq(x));
            let Some(v) = f.inv(&arg).and_then(|ai| f.sqrt(&ai)) else { continue };
            let u2 = f.abs(&f.mul(&v, &u1));
            let Some(enc_s) = c.encode_spec_fe(&m.pt) else { continue };
            let u1i = f.inv(&u1);
            for coord in [x.clone(), y.clone(), b(1), t.clone()] {
                let Some(ci) = f.inv(&coord) else { continue };
                let mut lams: Vec<crate::model::B> = Vec::new();
                for tg in [u2.clone(), f.neg(&u2), enc_s.clone(), f.neg(&enc_s)] {
                    lams.push(f.mul(&tg, &ci));
                }
                if let Some(u1i) = &u1i {
                    lams.push(f.mul(&coord, u1i));
                    lams.push(f.neg(&f.mul(&coord, u1i)));
                }
                for l in lams {
                    if l == b(0) || l == b(1) {
                        continue;
                    }
                    let mut s = present(c, &m, Some(&l));
                    s.class = "rescaled-coordinate-equals-intermediate";
                    out.push(s);
                }
            }
        }
        // ... and the argument of the encoder's inverse square root equal to such a constant (a fourth root
        // of target/argument exists for one element in four: walk the zoo until one is found)
        let targets: Vec<crate::model::B> = crate::eng::intermediate_targets(&c.f.p).into_iter().take(8).collect();
        for t in &targets {
            for tv in [Some(t.clone()), c.f.inv(t)].into_iter().flatten() {
                let mut found = 0;
                for m in &picks {
                    if let Some(l) = crate::eng::lambda_for_encoder_radicand(c, &m.pt, &tv) {
                        let mut s = present(c, m, Some(&l));
                        s.class = "rescaled-encoder-radicand-is-constant";
                        out.push(s);
                        found += 1;
                        if found == 2 {
                            break;
                        }
                    }
                }
            }
        }
    }
    out
}

pub fn pt_json(p: &Pt) -> serde_json::Value {
    json!({"x": hexs(&p.x), "y": hexs(&p.y)})
}
pub fn el_json(e: &El) -> serde_json::Value {
    let (x, y, z, t) = coords(e);
    json!({"X": hexs(&x), "Y": hexs(&y), "Z": hexs(&z), "T": hexs(&t)})
}

/// The common oracle for an operation that must return the element `want`:
///  * no panic,
///  * structural invariant (hook 2) and denotation up to the coset,
///  * public-API observable: vartime_compress() bytes == encodeSpec(want).
/// Returns the library value when everything held.
pub fn judge(
    ctx: &Ctx,
    rec: &mut Rec,
    prop: &str,
    form: &str,
    got: Result<El, String>,
    want: &Pt,
    inputs: serde_json::Value,
) -> Option<El> {
    let c = &ctx.c;
    match got {
        Err(p) => {
            rec.violation(
                format!("{prop}:{form}:panic"),
                format!("{form} panicked: {p}"),
                json!({"inputs": inputs, "expected": pt_json(want)}),
            );
            None
        }
        Ok(e) => {
            if let Err(why) = denotes(c, &e, want) {
                rec.violation(
                    format!("{prop}:{form}:wrong-element"),
                    format!("{form} returned a value that does not denote the reference result: {why}"),
                    json!({"inputs": inputs, "expected": pt_json(want), "observed": el_json(&e)}),
                );
                return None;
            }
            let want_bytes = c.encode_spec(want).expect("encodeSpec defined on 2E");
            match crate::mon::guarded(|| enc(&e)) {
                Err(p) => {
                    rec.violation(
                        format!("{prop}:{form}:encode-panic"),
                        format!("encoding the result of {form} panicked: {p}"),
                        json!({"inputs": inputs, "observed": el_json(&e)}),
                    );
                    return None;
                }
                Ok(bytes) => {
                    if bytes != want_bytes {
                        rec.violation(
                            format!("{prop}:{form}:wrong-encoding"),
                            format!("result of {form} encodes to {} but encodeSpec gives {}", hx(&bytes), hx(&want_bytes)),
                            json!({"inputs": inputs, "expected": pt_json(want), "observed": el_json(&e)}),
                        );
                        return None;
                    }
                }
            }
            Some(e)
        }
    }
}

/// limbs (u64 LE) of an integer, with `extra` leading-zero limbs appended
pub fn int_limbs(k: &B, extra: usize) -> Vec<u64> {
    let mut v = k.to_u64_digits();
    for _ in 0..extra {
        v.push(0);
    }
    v
}
