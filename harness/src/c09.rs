//! C09 — square-root-of-ratio meets its four-case contract on every input.
use crate::ad::*;
use crate::model::{b, hexs, B};
use crate::mon::{guarded, par, rng_for, Rec};
use crate::sh::*;
use crate::zoo::{field_zoo, rand_below, rand_range};
use serde_json::json;

const P: &str = "C09";
const N: u32 = 47;

/// 8-bit windows of the 2-primary discrete log whose values index table rows in the
/// table-driven routine (both alignments that the 7+8+8+8+8+8 split can produce).
pub const WINDOW_OFFSETS: [u32; 11] = [0, 7, 8, 15, 16, 23, 24, 31, 32, 39, 40];

pub struct Sylow {
    pub g: B,
    pub m_inv: B, // M^-1 mod 2^47
    pub m: B,
}

pub fn sylow(ctx: &Ctx) -> Sylow {
    let f = &ctx.c.f;
    assert_eq!(f.s, N);
    let m = f.t.clone();
    let g = f.pow(&ctx.c.zeta, &m);
    let two47 = b(1) << N;
    // inverse of odd M modulo 2^47 by Newton iteration
    let mut inv = b(1);
    for _ in 0..6 {
        // inv = inv * (2 - m*inv) mod 2^47
        let t = (&m * &inv) % &two47;
        let t2 = (&two47 + b(2) - t) % &two47;
        inv = (&inv * t2) % &two47;
    }
    assert_eq!((&m * &inv) % &two47, b(1));
    Sylow { g, m_inv: inv, m }
}

/// 2-primary discrete log of v (an element of the 2-Sylow subgroup) to the base g
pub fn dlog2(ctx: &Ctx, sy: &Sylow, v: &B) -> B {
    let f = &ctx.c.f;
    // Pohlig-Hellman in a cyclic 2-group: peel bits from the bottom
    let mut e = b(0);
    let mut cur = v.clone();
    let ginv = f.inv(&sy.g).unwrap();
    let mut gi_pow = ginv; // g^{-2^i}
    for i in 0..N {
        // cur^(2^(N-1-i)) == 1 ?
        let mut t = cur.clone();
        for _ in 0..(N - 1 - i) {
            t = f.sq(&t);
        }
        if t != b(1) {
            e |= b(1) << i;
            cur = f.mul(&cur, &gi_pow);
        }
        gi_pow = f.sq(&gi_pow);
    }
    debug_assert_eq!(cur, b(1));
    e
}

fn record_windows(rec: &mut Rec, e: &B) {
    record_windows_as(rec, "window", e)
}

/// structured 2-primary exponents: every value of every 8-bit window (optionally only every
/// `stride`-th value), all-zero, all-ones, powers of two
pub fn structured_exponents(stride: usize) -> Vec<B> {
    let two47 = b(1) << N;
    let mut v: Vec<B> = vec![b(0), &two47 - b(1)];
    for off in WINDOW_OFFSETS {
        for val in (0u64..256).step_by(stride) {
            let e = (b(val) << off) % &two47;
            v.push(e.clone());
            v.push((&two47 - &e) % &two47);
        }
    }
    for k in 0..N {
        v.push(b(1) << k);
    }
    v
}

/// a field element whose 2-primary component (its M-th power) is g^e, with random odd part
pub fn element_with_exponent(ctx: &Ctx, sy: &Sylow, e: &B, rng: &mut impl rand_core::RngCore) -> B {
    let f = &ctx.c.f;
    let two47 = b(1) << N;
    let a = (e * &sy.m_inv) % &two47;
    let mut u = rand_below(rng, &f.p);
    if u == b(0) {
        u = b(1);
    }
    f.mul(&f.pow(&sy.g, &a), &f.pow(&u, &two47))
}

pub fn record_windows_as(rec: &mut Rec, prefix: &str, e: &B) {
    let two47 = b(1) << N;
    let neg = (&two47 - e) % &two47;
    for (name, v) in [("e", e), ("-e", &neg)] {
        for off in WINDOW_OFFSETS {
            let w = ((v >> off) & b(0xff)).to_u64_digits().first().copied().unwrap_or(0);
            rec.set_insert(&format!("{prefix}[{name}>>{off}]"), w);
        }
    }
}

fn judge_sqrt(ctx: &Ctx, rec: &mut Rec, num: &B, den: &B, class: &str, sample: bool) {
    let f = &ctx.c.f;
    let (ln, ld) = (fq(num), fq(den));
    rec.class(class);
    rec.eval(&(num.to_bytes_le(), den.to_bytes_le()), num == &b(0) && den == &b(0));
    rec.event(format!("sqrt_ratio num={} den={}", hexs(num), hexs(den)));
    let got = guarded(|| {
        let (w, y) = sqrt_ratio(&ln, &ld);
        (w, fqb(&y))
    });
    let (w, y) = match got {
        Err(pn) => {
            rec.violation(format!("{P}:sqrt_ratio:panic"), format!("sqrt_ratio panicked ({class}): {pn}"), json!({"num": hexs(num), "den": hexs(den), "class": class}));
            return;
        }
        Ok(v) => v,
    };
    let detail = json!({"num": hexs(num), "den": hexs(den), "class": class, "was_square": w, "y": hexs(&y)});
    if sample {
        rec.sample(detail.clone());
    }
    if num == &b(0) {
        if !(w && y == b(0)) {
            rec.violation(format!("{P}:sqrt_ratio:case-num-zero"), "num = 0 must give (true, 0)", detail);
        }
        return;
    }
    if den == &b(0) {
        if w || y != b(0) {
            rec.violation(format!("{P}:sqrt_ratio:case-den-zero"), "den = 0 (num != 0) must give (false, 0)", detail);
        }
        return;
    }
    let ratio = f.div(num, den).unwrap();
    let is_sq = f.legendre(&ratio) == 1;
    if w != is_sq {
        rec.violation(format!("{P}:sqrt_ratio:wrong-flag"), format!("was_square = {w} but Euler's criterion says {is_sq}"), detail);
        return;
    }
    let lhs = f.mul(&f.sq(&y), den);
    let rhs = if is_sq { num.clone() } else { f.mul(&ctx.c.zeta, num) };
    if lhs != rhs {
        rec.violation(format!("{P}:sqrt_ratio:wrong-root"), format!("y^2*den != {}", if is_sq { "num" } else { "zeta*num" }), detail);
    }
}

pub fn run(ctx: &Ctx, rec: &mut Rec) {
    let f = &ctx.c.f;
    let sy = sylow(ctx);
    for cl in ["digit-enumeration", "all-zero-digits", "all-ones-digits", "carry", "root-of-unity", "ratio-one", "zeta^k", "zero-operand", "zoo-pair", "random"] {
        rec.declare_class(cl);
    }
    // --- structured exponents e of the 2-primary component
    let two47 = b(1) << N;
    let ones = &two47 - b(1);
    let mut exps: Vec<(B, &'static str)> = Vec::new();
    for off in WINDOW_OFFSETS {
        for v in 0u64..256 {
            let e = (b(v) << off) % &two47;
            exps.push((e.clone(), "digit-enumeration"));
            exps.push(((&two47 - &e) % &two47, "digit-enumeration"));
            // all-ones with this digit replaced
            let mask = (b(0xff) << off) % &two47;
            let e2 = ((&ones ^ &mask) | ((b(v) << off) % &two47)) % &two47;
            exps.push((e2, "all-ones-digits"));
        }
    }
    exps.push((b(0), "all-zero-digits"));
    exps.push((ones.clone(), "all-ones-digits"));
    for k in 0..N {
        exps.push((b(1) << k, "root-of-unity")); // g^(2^k): root of unity of order 2^(47-k)
        exps.push(((b(1) << k) - b(1), "carry"));
        exps.push((&two47 - (b(1) << k), "carry"));
        exps.push(((b(1) << k) + b(1), "carry"));
    }
    rec.count("structured_exponents", exps.len() as u64);
    par(rec, |w, n, rec| {
        let mut rng = rng_for(ctx.seed, P, w, 1);
        for (i, (e, class)) in exps.iter().enumerate() {
            if i % n != w {
                continue;
            }
            // ratio = g^(e * M^-1) * u^(2^47): its M-th power is g^e
            let a = (e * &sy.m_inv) % &two47;
            for variant in 0..2 {
                let odd_part = if variant == 0 && *class == "root-of-unity" {
                    b(1) // pure roots of unity
                } else {
                    let u = rand_below(&mut rng, &f.p);
                    if u == b(0) { b(1) } else { f.pow(&u, &two47) }
                };
                let ratio = f.mul(&f.pow(&sy.g, &a), &odd_part);
                // model-side confirmation of the exponent actually presented
                let e_seen = dlog2(ctx, &sy, &f.pow(&ratio, &sy.m));
                if &e_seen != e {
                    rec.inconclusive("harness: constructed ratio does not have the intended 2-primary exponent");
                }
                record_windows(rec, &e_seen);
                let mut den = rand_below(&mut rng, &f.p);
                if den == b(0) {
                    den = b(1);
                }
                if variant == 0 {
                    den = b(1);
                }
                let num = f.mul(&ratio, &den);
                judge_sqrt(ctx, rec, &num, &den, class, i < 2 && variant == 0);
                // num = 1, den = 1/ratio: the shape every internal caller uses
                let inv = f.inv(&ratio).unwrap();
                judge_sqrt(ctx, rec, &b(1), &inv, class, false);
            }
        }
    });
    // --- special ratios, zero operands, zoo pairs, random pairs
    let zoo = field_zoo(f);
    // every zoo value as the *ratio* itself: (v, 1), (1, 1/v) and (v*d, d) for a random d
    rec.declare_class("ratio-is-zoo-value");
    {
        let zoo_all = field_zoo(f);
        par(rec, |w, n, rec| {
            let mut rng = rng_for(ctx.seed, P, w, 61);
            for (i, (v, _)) in zoo_all.iter().enumerate() {
                if i % n != w || v == &b(0) {
                    continue;
                }
                judge_sqrt(ctx, rec, v, &b(1), "ratio-is-zoo-value", false);
                if let Some(inv) = f.inv(v) {
                    judge_sqrt(ctx, rec, &b(1), &inv, "ratio-is-zoo-value", false);
                }
                let d = { let d = rand_below(&mut rng, &f.p); if d == b(0) { b(3) } else { d } };
                judge_sqrt(ctx, rec, &f.mul(v, &d), &d, "ratio-is-zoo-value", false);
            }
        });
    }
    par(rec, |w, n, rec| {
        let mut rng = rng_for(ctx.seed, P, w, 2);
        if w == 0 {
            for (v, _) in zoo.iter() {
                judge_sqrt(ctx, rec, &b(0), v, "zero-operand", false);
                judge_sqrt(ctx, rec, v, &b(0), "zero-operand", false);
                if v != &b(0) {
                    judge_sqrt(ctx, rec, v, v, "ratio-one", false);
                }
            }
            let mut zk = b(1);
            for _ in 0..100 {
                judge_sqrt(ctx, rec, &zk, &b(1), "zeta^k", false);
                judge_sqrt(ctx, rec, &b(1), &zk, "zeta^k", false);
                zk = f.mul(&zk, &ctx.c.zeta);
            }
        }
        let npairs = ctx.scale(20_000, 200_000);
        for i in 0..npairs {
            if i % n != w {
                continue;
            }
            let a = &zoo[rand_range(&mut rng, zoo.len())].0;
            let bb = &zoo[rand_range(&mut rng, zoo.len())].0;
            judge_sqrt(ctx, rec, a, bb, "zoo-pair", false);
        }
        let nrand = ctx.scale(200_000, 4_000_000);
        for i in 0..nrand {
            if i % n != w {
                continue;
            }
            let a = rand_below(&mut rng, &f.p);
            let bb = rand_below(&mut rng, &f.p);
            if i % 64 == 0 && a != b(0) && bb != b(0) {
                let e = dlog2(ctx, &sy, &f.pow(&f.div(&a, &bb).unwrap(), &sy.m));
                record_windows(rec, &e);
            }
            judge_sqrt(ctx, rec, &a, &bb, "random", false);
        }
    });
    #[cfg(feature = "ark")]
    generic_sqrt(ctx, rec);
    // every window of e and of -e must have taken every one of its values
    for name in ["e", "-e"] {
        for off in WINDOW_OFFSETS {
            let key = format!("window[{name}>>{off}]");
            let width = (N - off).min(8);
            let want = 1usize << width;
            let have = rec.sets.get(&key).map(|s| s.len()).unwrap_or(0);
            if have < want {
                rec.inconclusive(format!("table-row coverage incomplete: {key} saw {have}/{want} values"));
            }
        }
    }
    rec.check_coverage();
}

/// Field::sqrt / Field::legendre of the three fields against Euler's criterion
#[cfg(feature = "ark")]
fn generic_sqrt(ctx: &Ctx, rec: &mut Rec) {
    use ark_ff::{Field, LegendreSymbol};
    macro_rules! one_field {
        ($name:expr, $fld:expr, $to:ident, $from:ident) => {{
            let fld = $fld;
            let zoo = field_zoo(fld);
            rec.declare_form(concat!($name, "::sqrt"));
            rec.declare_form(concat!($name, "::legendre"));
            rec.declare_form(concat!($name, "::sqrt_in_place"));
            par(rec, |w, n, rec| {
                let mut rng = rng_for(ctx.seed, P, w, 3);
                let mut vals: Vec<B> = zoo.iter().map(|z| z.0.clone()).collect();
                for _ in 0..ctx.scale(10_000, 300_000) {
                    vals.push(rand_below(&mut rng, &fld.p));
                }
                // squares of zoo values (guaranteed residues incl. structured ones)
                let sq: Vec<B> = zoo.iter().map(|z| fld.sq(&z.0)).collect();
                vals.extend(sq);
                for (i, v) in vals.iter().enumerate() {
                    if i % n != w {
                        continue;
                    }
                    let lv = $to(v);
                    let leg = fld.legendre(v);
                    rec.form(concat!($name, "::sqrt"));
                    rec.form(concat!($name, "::legendre"));
                    rec.eval(&($name, v.to_bytes_le()), v == &b(0));
                    // in-place variant: Some => the receiver holds a root; None => the receiver is unchanged
                    // ("sets self to the square root of self, if it exists")
                    rec.form(concat!($name, "::sqrt_in_place"));
                    match guarded(|| { let mut x = lv; let some = x.sqrt_in_place().is_some(); (some, $from(&x)) }) {
                        Err(pn) => rec.violation(format!("{P}:{}::sqrt_in_place:panic", $name), pn, json!({"v": hexs(v)})),
                        Ok((some, after)) => {
                            if some != (leg >= 0) {
                                rec.violation(format!("{P}:{}::sqrt_in_place:verdict", $name), format!("sqrt_in_place returned {} but Euler says {leg}", if some { "Some" } else { "None" }), json!({"v": hexs(v)}));
                            } else if some && fld.sq(&after) != *v {
                                rec.violation(format!("{P}:{}::sqrt_in_place:wrong-root", $name), "sqrt_in_place left a non-root in the receiver", json!({"v": hexs(v), "after": hexs(&after)}));
                            } else if !some && &after != v {
                                rec.violation(format!("{P}:{}::sqrt_in_place:receiver-clobbered", $name), "sqrt_in_place returned None (no root exists) but changed the receiver", json!({"v": hexs(v), "after": hexs(&after)}));
                            }
                        }
                    }
                    match guarded(|| (lv.sqrt().map(|y| $from(&y)), lv.legendre())) {
                        Err(pn) => rec.violation(format!("{P}:{}::sqrt:panic", $name), pn, json!({"v": hexs(v)})),
                        Ok((root, l)) => {
                            let lnum = match l {
                                LegendreSymbol::Zero => 0,
                                LegendreSymbol::QuadraticResidue => 1,
                                LegendreSymbol::QuadraticNonResidue => -1,
                            };
                            if lnum != leg {
                                rec.violation(format!("{P}:{}::legendre", $name), format!("legendre = {lnum}, Euler says {leg}"), json!({"v": hexs(v)}));
                            }
                            match root {
                                Some(y) => {
                                    if leg < 0 || fld.sq(&y) != *v {
                                        rec.violation(format!("{P}:{}::sqrt:wrong-root", $name), "sqrt returned a non-root", json!({"v": hexs(v), "y": hexs(&y)}));
                                    }
                                }
                                None => {
                                    if leg >= 0 {
                                        rec.violation(format!("{P}:{}::sqrt:missing-root", $name), "sqrt returned None for a square", json!({"v": hexs(v)}));
                                    }
                                }
                            }
                        }
                    }
                }
            });
        }};
    }
    one_field!("Fq", &ctx.c.f, fq, fqb);
    one_field!("Fr", &ctx.fr, fr, frb);
    one_field!("Fp", &ctx.fp, fp, fpb);
}

/// Fresh-process lazy-initialisation stress: this subcommand is started many times by the
/// driver; in each fresh process 16 threads are released by a barrier into their *first*
/// `sqrt_ratio` call (racing on the lazily built lookup tables), then the contract oracle
/// judges every result.
pub fn run_lazyinit(ctx: &Ctx, rec: &mut Rec) {
    let f = &ctx.c.f;
    let nthreads = 16usize;
    let barrier = std::sync::Arc::new(std::sync::Barrier::new(nthreads));
    let mut rng = rng_for(ctx.seed, P, 4242, std::process::id() as u64);
    // the very first call of the process is a case of its own (cold-start paths): depending on the process it is
    // one of the zero-operand cases, a ratio with a chosen structure, or random, made alone before the race
    {
        let pid = std::process::id() as usize + ctx.seed as usize;
        let first: (B, B) = match pid % 6 {
            0 => (b(0), b(0)),
            1 => (b(0), rand_below(&mut rng, &f.p)),
            2 => (rand_below(&mut rng, &f.p), b(0)),
            3 => (b(1), b(1)),
            4 => (ctx.c.zeta.clone(), b(1)),
            _ => (rand_below(&mut rng, &f.p), rand_below(&mut rng, &f.p)),
        };
        if pid % 2 == 0 {
            judge_sqrt(ctx, rec, &first.0, &first.1, "first-call-of-process", false);
        }
    }
    let inputs: Vec<(B, B)> = (0..nthreads).map(|i| match i { 0 => (b(1), b(4)), 1 => (b(0), b(0)), 2 => (b(0), b(5)), 3 => (b(5), b(0)), _ => (rand_below(&mut rng, &f.p), rand_below(&mut rng, &f.p)) }).collect();
    let results: Vec<Result<(bool, B), String>> = std::thread::scope(|s| {
        let hs: Vec<_> = inputs
            .iter()
            .map(|(n, d)| {
                let bar = barrier.clone();
                let (ln, ld) = (fq(n), fq(d));
                s.spawn(move || {
                    bar.wait();
                    guarded(|| {
                        let (w, y) = sqrt_ratio(&ln, &ld);
                        (w, fqb(&y))
                    })
                })
            })
            .collect();
        hs.into_iter().map(|h| h.join().expect("join")).collect()
    });
    rec.declare_class("first-use-race");
    for ((num, den), r) in inputs.iter().zip(results) {
        rec.class("first-use-race");
        rec.eval(&("lazy", num.to_bytes_le(), den.to_bytes_le(), std::process::id()), false);
        match r {
            Err(pn) => rec.violation(format!("{P}:lazy-init:panic"), format!("first use of sqrt_ratio under a 16-thread race panicked: {pn}"), json!({"num": hexs(num), "den": hexs(den)})),
            Ok((w, y)) => {
                let ratio = f.div(num, den).unwrap_or(b(0));
                let is_sq = f.legendre(&ratio) == 1;
                let rhs = if is_sq { num.clone() } else { f.mul(&ctx.c.zeta, num) };
                if num == &b(0) || den == &b(0) {
                    // zero-operand cases of the contract: (0, *) -> (true, 0); (x, 0) -> (false, 0)
                    let want_flag = num == &b(0);
                    if w != want_flag || y != b(0) {
                        rec.violation(format!("{P}:lazy-init:zero-case"), "a zero-operand case answered wrongly by a (racing) first use", json!({"num": hexs(num), "den": hexs(den), "was_square": w, "y": hexs(&y)}));
                    }
                } else if w != is_sq || f.mul(&f.sq(&y), den) != rhs {
                    rec.violation(format!("{P}:lazy-init:wrong-result"), "result of a racing first use violates the contract", json!({"num": hexs(num), "den": hexs(den), "was_square": w, "y": hexs(&y)}));
                }
            }
        }
    }
    rec.count("fresh_process_first_use_races", 1);
    rec.count("threads_released_together", nthreads as u64);
}
