//! Adapter: the small part of the library API that both builds share, plus conversions
//! between library values and model values (always through canonical bytes).
#![allow(dead_code)]
use crate::model::{from_le, to_le, Curve, Pt, B};
pub use decaf377::{Element as El, Encoding, EncodingError, Fp, Fq, Fr};

#[cfg(feature = "ark")]
pub const BUILD: &str = "ark";
#[cfg(feature = "min")]
pub const BUILD: &str = "min";

/// Panics of the *library* inside the canonical byte conversions the harness uses as plumbing
/// (e.g. a `debug_assert!` tripping in the monitor profile). They are collected here and turned
/// into a violation of the running property by `main` — never into a harness crash.
pub static CONVERSION_PANICS: std::sync::Mutex<Vec<String>> = std::sync::Mutex::new(Vec::new());

fn note_conversion_panic(what: &str, value: String, msg: String) {
    let mut g = CONVERSION_PANICS.lock().unwrap();
    if g.len() < 20 {
        g.push(format!("{what} panicked on {value}: {}", msg.lines().next().unwrap_or("")));
    }
}

macro_rules! conv {
    ($to:ident, $from:ident, $F:ty, $n:literal) => {
        pub fn $to(v: &B) -> $F {
            let mut a = [0u8; $n];
            a.copy_from_slice(&to_le(v, $n));
            match crate::mon::guarded(|| <$F>::from_bytes_checked(&a)) {
                Ok(r) => r.expect("harness: model value below the modulus"),
                Err(p) => {
                    note_conversion_panic(concat!(stringify!($F), "::from_bytes_checked"), crate::model::hexs(v), p);
                    <$F>::ZERO
                }
            }
        }
        pub fn $from(x: &$F) -> B {
            match crate::mon::guarded(|| x.to_bytes_le()) {
                Ok(bytes) => from_le(&bytes),
                Err(p) => {
                    note_conversion_panic(concat!(stringify!($F), "::to_bytes_le"), "(library value)".to_string(), p);
                    B::from(0u8)
                }
            }
        }
    };
}
conv!(fq, fqb, Fq, 32);
conv!(fr, frb, Fr, 32);
conv!(fp, fpb, Fp, 48);

/// library element with exactly the affine coordinates of the model point (Z = 1)
pub fn from_pt(c: &Curve, p: &Pt) -> El {
    let t = c.f.mul(&p.x, &p.y);
    El::verif_from_xyzt_unchecked(fq(&p.x), fq(&p.y), fq(&B::from(1u8)), fq(&t))
}
/// projective rescaling (lx, ly, l, lxy) of the model point
pub fn from_pt_scaled(c: &Curve, p: &Pt, l: &B) -> El {
    let f = &c.f;
    let t = f.mul(&p.x, &p.y);
    El::verif_from_xyzt_unchecked(fq(&f.mul(&p.x, l)), fq(&f.mul(&p.y, l)), fq(&f.red(l)), fq(&f.mul(&t, l)))
}
pub fn from_raw(x: &B, y: &B, z: &B, t: &B) -> El {
    El::verif_from_xyzt_unchecked(fq(x), fq(y), fq(z), fq(t))
}
pub fn coords(e: &El) -> (B, B, B, B) {
    let (x, y, z, t) = e.verif_xyzt();
    (fqb(&x), fqb(&y), fqb(&z), fqb(&t))
}

/// Structural invariant monitor (hook 2): Z != 0, XY = ZT, on curve; returns the affine
/// model point the library value denotes.
pub fn affine_of(c: &Curve, e: &El) -> Result<Pt, String> {
    let f = &c.f;
    let (x, y, z, t) = coords(e);
    if z == B::from(0u8) {
        return Err("Z == 0".into());
    }
    if f.mul(&x, &y) != f.mul(&z, &t) {
        return Err("X*Y != Z*T".into());
    }
    let zi = f.inv(&z).unwrap();
    let p = Pt { x: f.mul(&x, &zi), y: f.mul(&y, &zi) };
    if !c.on_curve(&p) {
        return Err("point not on curve".into());
    }
    Ok(p)
}

/// does the library value denote model point `want`, up to the coset {P, P+(0,-1)}?
pub fn denotes(c: &Curve, e: &El, want: &Pt) -> Result<(), String> {
    let got = affine_of(c, e)?;
    if &got == want || got == c.torque(want) {
        Ok(())
    } else {
        Err(format!("denotes ({},{}) but expected ({},{}) up to coset",
            crate::model::hexs(&got.x), crate::model::hexs(&got.y),
            crate::model::hexs(&want.x), crate::model::hexs(&want.y)))
    }
}

pub fn enc(e: &El) -> [u8; 32] {
    e.vartime_compress().0
}
pub fn dec(b: &[u8; 32]) -> Result<El, EncodingError> {
    Encoding(*b).vartime_decompress()
}

#[cfg(feature = "ark")]
pub fn sqrt_ratio(n: &Fq, d: &Fq) -> (bool, Fq) {
    Fq::sqrt_ratio_zeta(n, d)
}
#[cfg(feature = "min")]
pub fn sqrt_ratio(n: &Fq, d: &Fq) -> (bool, Fq) {
    Fq::non_arkworks_sqrt_ratio_zeta(n, d)
}

pub fn arr32(v: &[u8]) -> [u8; 32] {
    let mut a = [0u8; 32];
    a.copy_from_slice(v);
    a
}
