//! R1CS gadget catalogue shared by C13 (honest synthesis = native, complete), C14 (adversarial
//! hints) and C15 (shape independence). arkworks build only.
#![allow(dead_code)]
use crate::ad::*;
use crate::model::{b, B};
use crate::sh::*;
use ark_ec::{CurveGroup, Group};
use ark_r1cs_std::prelude::*;
use ark_r1cs_std::R1CSVar;
use ark_relations::r1cs::{ConstraintSystem, ConstraintSystemRef, OptimizationGoal, SynthesisError, SynthesisMode};
use decaf377::r1cs::fqvar_ext::FqVarExtension;
use decaf377::r1cs::{ElementVar, FqVar};
use std::hash::{Hash, Hasher};

pub type CS = ConstraintSystemRef<Fq>;
pub type Af = <El as CurveGroup>::Affine;

thread_local! {
    /// "blank" synthesis: every value closure of the harness' allocations answers AssignmentMissing, the
    /// way a circuit with `None` witnesses is synthesised for key generation
    pub static BLANK: std::cell::Cell<bool> = std::cell::Cell::new(false);
}
/// value closure for an allocation: the value, or AssignmentMissing in blank mode
pub fn val<T>(x: T) -> impl FnOnce() -> Result<T, SynthesisError> {
    move || if BLANK.with(|b| b.get()) { Err(SynthesisError::AssignmentMissing) } else { Ok(x) }
}

thread_local! {
    /// optimisation goal of the constraint systems the harness creates: 0 = Constraints (what Groth16 and the
    /// pinned keys use; the only goal under which shapes are compared), 1 = Weight, 2 = None
    pub static GOAL: std::cell::Cell<u8> = std::cell::Cell::new(0);
}
pub fn new_cs(setup: bool) -> CS {
    let cs = ConstraintSystem::<Fq>::new_ref();
    cs.set_optimization_goal(match GOAL.with(|g| g.get()) { 1 => OptimizationGoal::Weight, 2 => OptimizationGoal::None, _ => OptimizationGoal::Constraints });
    if setup {
        cs.set_mode(SynthesisMode::Setup);
    }
    cs
}

#[derive(Clone, Debug, PartialEq, Eq)]
pub struct Shape {
    pub ninst: usize,
    pub nwit: usize,
    pub ncons: usize,
    pub digest: u64,
}

/// (variables, constraints, digest of the A,B,C matrices). Finalises the system.
pub fn shape(cs: &CS) -> Shape {
    cs.finalize();
    let m = cs.to_matrices().expect("matrices");
    let mut h = std::collections::hash_map::DefaultHasher::new();
    for mat in [&m.a, &m.b, &m.c] {
        mat.len().hash(&mut h);
        for row in mat.iter() {
            row.len().hash(&mut h);
            for (coeff, idx) in row {
                coeff.to_bytes_le().hash(&mut h);
                idx.hash(&mut h);
            }
        }
    }
    Shape { ninst: cs.num_instance_variables(), nwit: cs.num_witness_variables(), ncons: cs.num_constraints(), digest: h.finish() }
}

#[derive(Clone, Debug)]
pub enum Inp {
    E(El),
    EE(El, El),
    EEB(El, El, bool),
    F(Fq),
    EBits(El, Vec<bool>),
    FF(Fq, Fq),
}
#[derive(Clone, Debug)]
pub enum Out {
    E(El),
    F(Fq),
    B(bool),
    /// isqrt: (was_square, y)
    BF(bool, Fq),
    Bits(Vec<bool>),
    Unit,
}
pub enum OutVar {
    E(ElementVar),
    F(FqVar),
    B(Boolean<Fq>),
    BF(Boolean<Fq>, FqVar),
    Bits(Vec<Boolean<Fq>>),
    Bytes(Vec<UInt8<Fq>>),
    Unit,
}

impl OutVar {
    /// read the output values (only call on satisfied systems)
    pub fn read(&self) -> Result<Out, SynthesisError> {
        Ok(match self {
            OutVar::E(v) => Out::E(v.value()?),
            OutVar::F(v) => Out::F(v.value()?),
            OutVar::B(v) => Out::B(v.value()?),
            OutVar::BF(a, y) => Out::BF(a.value()?, y.value()?),
            OutVar::Bits(v) => Out::Bits(v.iter().map(|x| x.value()).collect::<Result<Vec<_>, _>>()?),
            OutVar::Bytes(v) => {
                let mut bits = Vec::new();
                for byte in v {
                    let val = byte.value()?;
                    for i in 0..8 {
                        bits.push((val >> i) & 1 == 1);
                    }
                }
                Out::Bits(bits)
            }
            OutVar::Unit => Out::Unit,
        })
    }
}

/// does the gadget output agree with the native output?
pub fn out_matches(c: &crate::model::Curve, got: &Out, want: &Out) -> Result<(), String> {
    match (got, want) {
        (Out::E(a), Out::E(w)) => {
            // decaf equality plus: the value must denote the same model point up to the coset
            let wp = affine_of(c, w)?;
            denotes(c, a, &wp)?;
            if a != w {
                return Err("library == says different".into());
            }
            Ok(())
        }
        (Out::F(a), Out::F(w)) => {
            if a == w {
                Ok(())
            } else {
                Err(format!("field value {} != native {}", crate::model::hexs(&fqb(a)), crate::model::hexs(&fqb(w))))
            }
        }
        (Out::B(a), Out::B(w)) => {
            if a == w {
                Ok(())
            } else {
                Err(format!("boolean {a} != native {w}"))
            }
        }
        (Out::BF(fa, ya), Out::BF(fw, yw)) => {
            // the sign of the root is free
            if fa != fw {
                return Err(format!("was_square {fa} != native {fw}"));
            }
            if ya == yw || *ya == -*yw {
                Ok(())
            } else {
                Err("root differs from the native root by more than a sign".into())
            }
        }
        (Out::Bits(a), Out::Bits(w)) => {
            if a == w {
                Ok(())
            } else {
                Err("bit decomposition differs".into())
            }
        }
        (Out::Unit, Out::Unit) => Ok(()),
        _ => Err("harness: output kinds differ".into()),
    }
}

type RunFn = Box<dyn Fn(&CS, &Inp) -> Result<OutVar, SynthesisError> + Send + Sync>;
type NatFn = Box<dyn Fn(&Inp) -> Option<Out> + Send + Sync>;

pub struct Gadget {
    pub name: &'static str,
    /// which input kind it takes: "E", "EE", "EEB", "F", "EBits"
    pub kind: &'static str,
    pub run: RunFn,
    pub native: NatFn,
    /// number of isqrt calls an honest synthesis makes (filled lazily by C14)
    pub uses_isqrt: bool,
}

/// allocate an element with exactly the given representation (two witness coordinates, no constraints)
pub fn raw(cs: &CS, e: &El) -> Result<ElementVar, SynthesisError> {
    let e = *e;
    let before = cs.num_witness_variables();
    let r = ElementVar::new_variable_omit_prime_order_check(cs.clone(), val(e), AllocationMode::Witness);
    crate::tamper::note_inputs(before, cs.num_witness_variables());
    r
}
pub fn wf(cs: &CS, x: &Fq) -> Result<FqVar, SynthesisError> {
    let x = *x;
    let before = cs.num_witness_variables();
    let r = FqVar::new_witness(cs.clone(), val(x));
    crate::tamper::note_inputs(before, cs.num_witness_variables());
    r
}
pub fn wb(cs: &CS, x: bool) -> Result<Boolean<Fq>, SynthesisError> {
    let before = cs.num_witness_variables();
    let r = Boolean::new_witness(cs.clone(), val(x));
    crate::tamper::note_inputs(before, cs.num_witness_variables());
    r
}

/// a guard with value `x` in presentation `kind`: 0 witness, 1 negation of a witness, 2 / 5 output of a
/// field comparison gadget, 3 public input, 4 constant
pub fn guard_as(cs: &CS, x: bool, kind: u8) -> Result<Boolean<Fq>, SynthesisError> {
    match kind {
        0 => wb(cs, x),
        1 => Ok(wb(cs, !x)?.not()),
        2 => {
            let before = cs.num_witness_variables();
            let a = FqVar::new_witness(cs.clone(), val(Fq::from(5u64)))?;
            let c = FqVar::new_witness(cs.clone(), val(Fq::from(if x { 5u64 } else { 6 })))?;
            crate::tamper::note_inputs(before, cs.num_witness_variables());
            a.is_eq(&c)
        }
        5 => {
            let before = cs.num_witness_variables();
            let a = FqVar::new_witness(cs.clone(), val(Fq::from(5u64)))?;
            let c = FqVar::new_witness(cs.clone(), val(Fq::from(if x { 6u64 } else { 5 })))?;
            crate::tamper::note_inputs(before, cs.num_witness_variables());
            a.is_neq(&c)
        }
        3 => Boolean::new_input(cs.clone(), val(x)),
        _ => Ok(Boolean::constant(x)),
    }
}

fn e1(i: &Inp) -> El {
    match i {
        Inp::E(a) | Inp::EE(a, _) | Inp::EEB(a, _, _) | Inp::EBits(a, _) => *a,
        _ => panic!("harness: wrong input kind"),
    }
}
fn e2(i: &Inp) -> El {
    match i {
        Inp::EE(_, b) | Inp::EEB(_, b, _) => *b,
        _ => panic!("harness: wrong input kind"),
    }
}
fn fbool(i: &Inp) -> bool {
    match i {
        Inp::EEB(_, _, g) => *g,
        _ => panic!("harness: wrong input kind"),
    }
}
fn f1(i: &Inp) -> Fq {
    match i {
        Inp::F(x) | Inp::FF(x, _) => *x,
        _ => panic!("harness: wrong input kind"),
    }
}
fn f2(i: &Inp) -> Fq {
    match i {
        Inp::FF(_, y) => *y,
        _ => panic!("harness: wrong input kind"),
    }
}
/// lazily-encoded element variable (state `Encoding`): nothing is decoded until forced
pub fn lazy_w(cs: &CS, x: &Fq) -> Result<ElementVar, SynthesisError> {
    let x = *x;
    let before = cs.num_witness_variables();
    let r = AllocVar::<Fq, Fq>::new_witness(cs.clone(), val(x));
    crate::tamper::note_inputs(before, cs.num_witness_variables());
    r
}
pub fn lazy_c(cs: &CS, x: &Fq) -> Result<ElementVar, SynthesisError> {
    AllocVar::<Fq, Fq>::new_constant(cs.clone(), *x)
}
fn native_pair(i: &Inp) -> Option<(El, El)> {
    Some((dec(&f1(i).to_bytes_le()).ok()?, dec(&f2(i).to_bytes_le()).ok()?))
}

fn affine_bits(e: &El) -> (Vec<bool>, Vec<bool>) {
    // canonical little-endian bits (253) of affine x and y of exactly this representative
    let a: ark_ec::twisted_edwards::Affine<<El as CurveGroup>::Config> = {
        let (x, y, z, _t) = e.verif_xyzt();
        let zi = z.inverse().expect("Z != 0");
        ark_ec::twisted_edwards::Affine::new_unchecked(x * zi, y * zi)
    };
    let bits = |v: &Fq| -> Vec<bool> {
        let bytes = v.to_bytes_le();
        (0..253).map(|i| (bytes[i / 8] >> (i % 8)) & 1 == 1).collect()
    };
    (bits(&a.x), bits(&a.y))
}

macro_rules! g {
    ($v:ident, $name:literal, $kind:literal, $isq:expr, |$cs:ident, $i:ident| $run:expr, |$j:ident| $nat:expr) => {
        $v.push(Gadget { name: $name, kind: $kind, uses_isqrt: $isq, run: Box::new(|$cs: &CS, $i: &Inp| -> Result<OutVar, SynthesisError> { $run }), native: Box::new(|$j: &Inp| -> Option<Out> { $nat }) });
    };
}

pub fn gadgets() -> Vec<Gadget> {
    let mut v: Vec<Gadget> = Vec::new();
    // --- encode / decode / hash-to-group
    g!(v, "compress_to_field", "E", true, |cs, i| Ok(OutVar::F(raw(cs, &e1(i))?.compress_to_field()?)), |i| Some(Out::F(e1(i).vartime_compress_to_field())));
    g!(v, "decompress_from_field", "F", true, |cs, i| Ok(OutVar::E(ElementVar::decompress_from_field(wf(cs, &f1(i))?)?)), |i| dec(&f1(i).to_bytes_le()).ok().map(Out::E));
    g!(v, "encode_to_curve", "F", true, |cs, i| Ok(OutVar::E(ElementVar::encode_to_curve(&wf(cs, &f1(i))?)?)), |i| Some(Out::E(El::encode_to_curve(&f1(i)))));
    g!(v, "decompress_from_field + compress_to_field", "F", true, |cs, i| Ok(OutVar::F(ElementVar::decompress_from_field(wf(cs, &f1(i))?)?.compress_to_field()?)), |i| dec(&f1(i).to_bytes_le()).ok().map(|_| Out::F(f1(i))));
    // --- the same on constant-mode inputs (no constraint system attached to the operands)
    g!(v, "compress_to_field (constant Element)", "E", false, |cs, i| { let e = e1(i); Ok(OutVar::F(ElementVar::new_constant(cs.clone(), e)?.compress_to_field()?)) }, |i| Some(Out::F(e1(i).vartime_compress_to_field())));
    g!(v, "decompress_from_field (constant FqVar)", "F", false, |_cs, i| Ok(OutVar::E(ElementVar::decompress_from_field(FqVar::constant(f1(i)))?)), |i| dec(&f1(i).to_bytes_le()).ok().map(Out::E));
    g!(v, "encode_to_curve (constant FqVar)", "F", false, |_cs, i| Ok(OutVar::E(ElementVar::encode_to_curve(&FqVar::constant(f1(i)))?)), |i| Some(Out::E(El::encode_to_curve(&f1(i)))));
    g!(v, "isqrt (constant FqVar)", "F", false, |_cs, i| { let (a, y) = FqVar::constant(f1(i)).isqrt()?; Ok(OutVar::BF(a, y)) }, |i| { let (a, y) = Fq::sqrt_ratio_zeta(&Fq::ONE, &f1(i)); Some(Out::BF(a, y)) });
    // --- group operations
    g!(v, "Var + Var", "EE", false, |cs, i| Ok(OutVar::E(raw(cs, &e1(i))? + raw(cs, &e2(i))?)), |i| Some(Out::E(e1(i) + e2(i))));
    g!(v, "Var + &Var", "EE", false, |cs, i| { let q = raw(cs, &e2(i))?; Ok(OutVar::E(raw(cs, &e1(i))? + &q)) }, |i| Some(Out::E(e1(i) + e2(i))));
    g!(v, "Var += Var", "EE", false, |cs, i| { let mut p = raw(cs, &e1(i))?; p += raw(cs, &e2(i))?; Ok(OutVar::E(p)) }, |i| Some(Out::E(e1(i) + e2(i))));
    g!(v, "Var += &Var", "EE", false, |cs, i| { let mut p = raw(cs, &e1(i))?; let q = raw(cs, &e2(i))?; p += &q; Ok(OutVar::E(p)) }, |i| Some(Out::E(e1(i) + e2(i))));
    g!(v, "Var + Element", "EE", false, |cs, i| Ok(OutVar::E(raw(cs, &e1(i))? + e2(i))), |i| Some(Out::E(e1(i) + e2(i))));
    g!(v, "Var += Element", "EE", false, |cs, i| { let mut p = raw(cs, &e1(i))?; p += e2(i); Ok(OutVar::E(p)) }, |i| Some(Out::E(e1(i) + e2(i))));
    g!(v, "Var - Var", "EE", false, |cs, i| Ok(OutVar::E(raw(cs, &e1(i))? - raw(cs, &e2(i))?)), |i| Some(Out::E(e1(i) - e2(i))));
    g!(v, "Var - &Var", "EE", false, |cs, i| { let q = raw(cs, &e2(i))?; Ok(OutVar::E(raw(cs, &e1(i))? - &q)) }, |i| Some(Out::E(e1(i) - e2(i))));
    g!(v, "Var -= Var", "EE", false, |cs, i| { let mut p = raw(cs, &e1(i))?; p -= raw(cs, &e2(i))?; Ok(OutVar::E(p)) }, |i| Some(Out::E(e1(i) - e2(i))));
    g!(v, "Var -= &Var", "EE", false, |cs, i| { let mut p = raw(cs, &e1(i))?; let q = raw(cs, &e2(i))?; p -= &q; Ok(OutVar::E(p)) }, |i| Some(Out::E(e1(i) - e2(i))));
    g!(v, "Var - Element", "EE", false, |cs, i| Ok(OutVar::E(raw(cs, &e1(i))? - e2(i))), |i| Some(Out::E(e1(i) - e2(i))));
    g!(v, "Var -= Element", "EE", false, |cs, i| { let mut p = raw(cs, &e1(i))?; p -= e2(i); Ok(OutVar::E(p)) }, |i| Some(Out::E(e1(i) - e2(i))));
    g!(v, "negate", "E", false, |cs, i| Ok(OutVar::E(raw(cs, &e1(i))?.negate()?)), |i| Some(Out::E(-e1(i))));
    g!(v, "double_in_place", "E", false, |cs, i| { let mut p = raw(cs, &e1(i))?; p.double_in_place()?; Ok(OutVar::E(p)) }, |i| Some(Out::E(e1(i) + e1(i))));
    g!(v, "double (CurveVar)", "E", false, |cs, i| Ok(OutVar::E(raw(cs, &e1(i))?.double()?)), |i| Some(Out::E(e1(i) + e1(i))));
    g!(v, "scalar_mul_le", "EBits", false, |cs, i| {
        let Inp::EBits(p, bits) = i else { panic!("harness") };
        let bv: Vec<Boolean<Fq>> = bits.iter().map(|x| wb(cs, *x)).collect::<Result<_, _>>()?;
        Ok(OutVar::E(raw(cs, p)?.scalar_mul_le(bv.iter())?))
    }, |i| {
        let Inp::EBits(p, bits) = i else { panic!("harness") };
        let mut limbs = vec![0u64; (bits.len() + 63) / 64];
        for (k, bit) in bits.iter().enumerate() {
            if *bit {
                limbs[k / 64] |= 1 << (k % 64);
            }
        }
        Some(Out::E(Group::mul_bigint(p, &limbs)))
    });
    // --- scalar multiplication with bit strings that mix allocation modes (clamped scalars, fixed offset
    //     blocks, public bits): the gadget specialises on constant bits
    fn mixed_bits(cs: &CS, bits: &[bool], mode_of: impl Fn(usize, usize) -> u8) -> Result<Vec<Boolean<Fq>>, SynthesisError> {
        let n = bits.len();
        bits.iter().enumerate().map(|(k, x)| match mode_of(k, n) {
            0 => Ok(Boolean::constant(*x)),
            _ => wb(cs, *x),
        }).collect()
    }
    fn nat_mul(i: &Inp) -> Option<Out> {
        let Inp::EBits(p, bits) = i else { panic!("harness") };
        let mut limbs = vec![0u64; (bits.len() + 63) / 64];
        for (k, bit) in bits.iter().enumerate() {
            if *bit {
                limbs[k / 64] |= 1 << (k % 64);
            }
        }
        Some(Out::E(Group::mul_bigint(p, &limbs)))
    }
    g!(v, "scalar_mul_le (constant head, witness tail)", "EBits", false, |cs, i| {
        let Inp::EBits(p, bits) = i else { panic!("harness") };
        let bv = mixed_bits(cs, bits, |k, n| if k < n / 2 { 0 } else { 1 })?;
        Ok(OutVar::E(raw(cs, p)?.scalar_mul_le(bv.iter())?))
    }, |i| nat_mul(i));
    g!(v, "scalar_mul_le (constant tail, witness head)", "EBits", false, |cs, i| {
        let Inp::EBits(p, bits) = i else { panic!("harness") };
        let bv = mixed_bits(cs, bits, |k, n| if k < n / 3 + 1 { 1 } else { 0 })?;
        Ok(OutVar::E(raw(cs, p)?.scalar_mul_le(bv.iter())?))
    }, |i| nat_mul(i));
    g!(v, "scalar_mul_le (constant and witness bits interleaved)", "EBits", false, |cs, i| {
        let Inp::EBits(p, bits) = i else { panic!("harness") };
        let bv = mixed_bits(cs, bits, |k, n| if (k * 7 + n) % 5 < 2 { 0 } else { 1 })?;
        Ok(OutVar::E(raw(cs, p)?.scalar_mul_le(bv.iter())?))
    }, |i| nat_mul(i));
    g!(v, "scalar_mul_le (constant bits only)", "EBits", false, |cs, i| {
        let Inp::EBits(p, bits) = i else { panic!("harness") };
        let bv = mixed_bits(cs, bits, |_, _| 0)?;
        Ok(OutVar::E(raw(cs, p)?.scalar_mul_le(bv.iter())?))
    }, |i| nat_mul(i));
    g!(v, "scalar_mul_le (constant base point, witness bits)", "EBits", false, |cs, i| {
        let Inp::EBits(p, bits) = i else { panic!("harness") };
        let bv = mixed_bits(cs, bits, |_, _| 1)?;
        Ok(OutVar::E(ElementVar::new_constant(cs.clone(), *p)?.scalar_mul_le(bv.iter())?))
    }, |i| nat_mul(i));
    g!(v, "scalar_mul_le (constant base point and interleaved constant bits)", "EBits", false, |cs, i| {
        let Inp::EBits(p, bits) = i else { panic!("harness") };
        let bv = mixed_bits(cs, bits, |k, n| if (k * 3 + n) % 4 == 0 { 1 } else { 0 })?;
        Ok(OutVar::E(ElementVar::new_constant(cs.clone(), *p)?.scalar_mul_le(bv.iter())?))
    }, |i| nat_mul(i));
    // --- the provided fixed-base methods of the CurveVar trait (bases P, 2P, 4P, ... computed natively)
    fn pow2_bases(p: &El, n: usize) -> Vec<El> {
        let mut out = Vec::with_capacity(n);
        let mut cur = *p;
        for _ in 0..n {
            out.push(cur);
            cur = cur + cur;
        }
        out
    }
    g!(v, "precomputed_base_scalar_mul_le (constant bases; witness bits, accumulator = zero())", "EBits", false, |cs, i| {
        use ark_r1cs_std::groups::CurveVar;
        let Inp::EBits(p, bits) = i else { panic!("harness") };
        let bv = mixed_bits(cs, bits, |_, _| 1)?;
        let bases = pow2_bases(p, bits.len());
        let mut acc = <ElementVar as CurveVar<El, Fq>>::zero();
        acc.precomputed_base_scalar_mul_le(bv.iter().zip(bases.iter()))?;
        Ok(OutVar::E(acc))
    }, |i| nat_mul(i));
    g!(v, "precomputed_base_scalar_mul_le (constant bases; mixed bits, accumulator = the base as a witness)", "EBits", false, |cs, i| {
        use ark_r1cs_std::groups::CurveVar;
        let Inp::EBits(p, bits) = i else { panic!("harness") };
        let bv = mixed_bits(cs, bits, |k, n| if (k * 5 + n) % 3 == 0 { 0 } else { 1 })?;
        let bases = pow2_bases(p, bits.len());
        let mut acc = raw(cs, p)?;
        acc.precomputed_base_scalar_mul_le(bv.iter().zip(bases.iter()))?;
        Ok(OutVar::E(acc))
    }, |i| nat_mul(i)); // (ark-r1cs-std semantics: the previous value of the accumulator is discarded)
    // (one scalar only: with several, the provided method of ark-r1cs-std 0.4 restarts from zero for every scalar and
    //  returns the last term -- behaviour of the dependency, outside this repository, not judged here)
    g!(v, "precomputed_base_multiscalar_mul_le (constant bases -2P, -4P, ...; one scalar)", "EBits", false, |cs, i| {
        use ark_r1cs_std::groups::CurveVar;
        let Inp::EBits(p, bits) = i else { panic!("harness") };
        let bv1 = mixed_bits(cs, bits, |_, _| 1)?;
        let b2 = pow2_bases(&(-(*p + *p)), bits.len());
        let r = <ElementVar as CurveVar<El, Fq>>::precomputed_base_multiscalar_mul_le(&[b2], [bv1].iter())?;
        Ok(OutVar::E(r))
    }, |i| nat_mul(i).map(|o| match o { Out::E(e) => Out::E(-(e + e)), o => o }));
    g!(v, "CurveVar::zero() / is_zero / constant (constant operand)", "E", false, |cs, i| {
        use ark_r1cs_std::groups::CurveVar;
        let z = <ElementVar as CurveVar<El, Fq>>::zero();
        let e = raw(cs, &e1(i))?;
        let k = <ElementVar as CurveVar<El, Fq>>::constant(e1(i));
        let flags = vec![e.is_zero()?, z.is_zero()?, (e.clone() + z.clone()).is_eq(&e)?, k.is_eq(&e)?, (e.clone() - k).is_zero()?];
        Ok(OutVar::Bits(flags))
    }, |i| Some(Out::Bits(vec![e1(i) == El::IDENTITY, true, true, true, true])));
    // --- an ElementVar that lazily holds a *constant* encoding, forced by each operator in turn (an invalid constant
    //     has no constraint that could fail: the operation itself has to refuse)
    g!(v, "G + (constant lazy encoding)", "F", false, |cs, i| Ok(OutVar::E(raw(cs, &El::GENERATOR)? + lazy_c(cs, &f1(i))?)), |i| dec(&f1(i).to_bytes_le()).ok().map(|e| Out::E(El::GENERATOR + e)));
    g!(v, "(constant lazy encoding) + G", "F", false, |cs, i| Ok(OutVar::E(lazy_c(cs, &f1(i))? + raw(cs, &El::GENERATOR)?)), |i| dec(&f1(i).to_bytes_le()).ok().map(|e| Out::E(e + El::GENERATOR)));
    g!(v, "G - &(constant lazy encoding)", "F", false, |cs, i| { let c = lazy_c(cs, &f1(i))?; Ok(OutVar::E(raw(cs, &El::GENERATOR)? - &c)) }, |i| dec(&f1(i).to_bytes_le()).ok().map(|e| Out::E(El::GENERATOR - e)));
    g!(v, "G += (constant lazy encoding)", "F", false, |cs, i| { let mut g0 = raw(cs, &El::GENERATOR)?; g0 += lazy_c(cs, &f1(i))?; Ok(OutVar::E(g0)) }, |i| dec(&f1(i).to_bytes_le()).ok().map(|e| Out::E(El::GENERATOR + e)));
    g!(v, "G -= (constant lazy encoding)", "F", false, |cs, i| { let mut g0 = raw(cs, &El::GENERATOR)?; g0 -= lazy_c(cs, &f1(i))?; Ok(OutVar::E(g0)) }, |i| dec(&f1(i).to_bytes_le()).ok().map(|e| Out::E(El::GENERATOR - e)));
    g!(v, "(constant lazy encoding) + Element", "F", false, |cs, i| Ok(OutVar::E(lazy_c(cs, &f1(i))? + El::GENERATOR)), |i| dec(&f1(i).to_bytes_le()).ok().map(|e| Out::E(e + El::GENERATOR)));
    g!(v, "(constant lazy encoding).negate()", "F", false, |cs, i| Ok(OutVar::E(lazy_c(cs, &f1(i))?.negate()?)), |i| dec(&f1(i).to_bytes_le()).ok().map(|e| Out::E(-e)));
    g!(v, "(constant lazy encoding).double()", "F", false, |cs, i| Ok(OutVar::E(lazy_c(cs, &f1(i))?.double()?)), |i| dec(&f1(i).to_bytes_le()).ok().map(|e| Out::E(e + e)));
    g!(v, "(constant lazy encoding) is_eq G", "F", false, |cs, i| Ok(OutVar::B(lazy_c(cs, &f1(i))?.is_eq(&raw(cs, &El::GENERATOR)?)?)), |i| dec(&f1(i).to_bytes_le()).ok().map(|e| Out::B(e == El::GENERATOR)));
    g!(v, "conditionally_select(w, G, (constant lazy encoding))", "F", false, |cs, i| { let gd = wb(cs, false)?; Ok(OutVar::E(ElementVar::conditionally_select(&gd, &raw(cs, &El::GENERATOR)?, &lazy_c(cs, &f1(i))?)?)) }, |i| dec(&f1(i).to_bytes_le()).ok().map(Out::E));
    g!(v, "(constant lazy encoding).scalar_mul_le(5)", "F", false, |cs, i| { let bits = [wb(cs, true)?, wb(cs, false)?, wb(cs, true)?]; Ok(OutVar::E(lazy_c(cs, &f1(i))?.scalar_mul_le(bits.iter())?)) }, |i| dec(&f1(i).to_bytes_le()).ok().map(|e| Out::E(e * Fr::from(5u64))));
    // --- equality family
    g!(v, "is_eq", "EE", false, |cs, i| Ok(OutVar::B(raw(cs, &e1(i))?.is_eq(&raw(cs, &e2(i))?)?)), |i| Some(Out::B(e1(i) == e2(i))));
    g!(v, "is_neq", "EE", false, |cs, i| Ok(OutVar::B(raw(cs, &e1(i))?.is_neq(&raw(cs, &e2(i))?)?)), |i| Some(Out::B(e1(i) != e2(i))));
    g!(v, "enforce_equal", "EE", false, |cs, i| { raw(cs, &e1(i))?.enforce_equal(&raw(cs, &e2(i))?)?; Ok(OutVar::Unit) }, |i| if e1(i) == e2(i) { Some(Out::Unit) } else { None });
    g!(v, "enforce_not_equal", "EE", false, |cs, i| { raw(cs, &e1(i))?.enforce_not_equal(&raw(cs, &e2(i))?)?; Ok(OutVar::Unit) }, |i| if e1(i) != e2(i) { Some(Out::Unit) } else { None });
    g!(v, "conditional_enforce_equal", "EEB", false, |cs, i| { let gd = wb(cs, fbool(i))?; raw(cs, &e1(i))?.conditional_enforce_equal(&raw(cs, &e2(i))?, &gd)?; Ok(OutVar::Unit) }, |i| if !fbool(i) || e1(i) == e2(i) { Some(Out::Unit) } else { None });
    g!(v, "conditional_enforce_not_equal", "EEB", false, |cs, i| { let gd = wb(cs, fbool(i))?; raw(cs, &e1(i))?.conditional_enforce_not_equal(&raw(cs, &e2(i))?, &gd)?; Ok(OutVar::Unit) }, |i| if !fbool(i) || e1(i) != e2(i) { Some(Out::Unit) } else { None });
    g!(v, "conditionally_select", "EEB", false, |cs, i| { let gd = wb(cs, fbool(i))?; Ok(OutVar::E(ElementVar::conditionally_select(&gd, &raw(cs, &e1(i))?, &raw(cs, &e2(i))?)?)) }, |i| Some(Out::E(if fbool(i) { e1(i) } else { e2(i) })));
    // --- the guard in each of its other presentations: the negation of a witness (`Boolean::Not`), the output of
    //     a comparison gadget (also a negation internally), a public input, a constant
    macro_rules! guarded_family {
        ($k:literal, $sel:literal, $ceq:literal, $cne:literal) => {
            g!(v, $sel, "EEB", false, |cs, i| { let gd = guard_as(cs, fbool(i), $k)?; Ok(OutVar::E(ElementVar::conditionally_select(&gd, &raw(cs, &e1(i))?, &raw(cs, &e2(i))?)?)) }, |i| Some(Out::E(if fbool(i) { e1(i) } else { e2(i) })));
            g!(v, $ceq, "EEB", false, |cs, i| { let gd = guard_as(cs, fbool(i), $k)?; raw(cs, &e1(i))?.conditional_enforce_equal(&raw(cs, &e2(i))?, &gd)?; Ok(OutVar::Unit) }, |i| if !fbool(i) || e1(i) == e2(i) { Some(Out::Unit) } else { None });
            g!(v, $cne, "EEB", false, |cs, i| { let gd = guard_as(cs, fbool(i), $k)?; raw(cs, &e1(i))?.conditional_enforce_not_equal(&raw(cs, &e2(i))?, &gd)?; Ok(OutVar::Unit) }, |i| if !fbool(i) || e1(i) != e2(i) { Some(Out::Unit) } else { None });
        };
    }
    guarded_family!(1, "conditionally_select (guard = negated witness)", "conditional_enforce_equal (guard = negated witness)", "conditional_enforce_not_equal (guard = negated witness)");
    guarded_family!(2, "conditionally_select (guard = output of FqVar::is_eq)", "conditional_enforce_equal (guard = output of FqVar::is_eq)", "conditional_enforce_not_equal (guard = output of FqVar::is_eq)");
    guarded_family!(3, "conditionally_select (guard = public input)", "conditional_enforce_equal (guard = public input)", "conditional_enforce_not_equal (guard = public input)");
    guarded_family!(4, "conditionally_select (constant guard)", "conditional_enforce_equal (constant guard)", "conditional_enforce_not_equal (constant guard)");
    guarded_family!(5, "conditionally_select (guard = output of FqVar::is_neq)", "conditional_enforce_equal (guard = output of FqVar::is_neq)", "conditional_enforce_not_equal (guard = output of FqVar::is_neq)");
    g!(v, "conditionally_select (guard = output of ElementVar::is_eq of the operands)", "EE", false, |cs, i| { let (a, bb) = (raw(cs, &e1(i))?, raw(cs, &e2(i))?); let gd = a.is_eq(&bb)?; Ok(OutVar::E(ElementVar::conditionally_select(&gd, &a, &bb)?)) }, |i| Some(Out::E(e2(i))));
    g!(v, "conditionally_select (guard = output of ElementVar::is_neq of the operands)", "EE", false, |cs, i| { let (a, bb) = (raw(cs, &e1(i))?, raw(cs, &e2(i))?); let gd = a.is_neq(&bb)?; Ok(OutVar::E(ElementVar::conditionally_select(&gd, &a, &bb)?)) }, |i| Some(Out::E(e1(i))));
    // --- equality family on two *constants* (no constraint system is attached to either operand): enforcing a
    //     false statement must fail (error or unsatisfiable), never pass silently
    g!(v, "is_eq (constant, constant)", "EE", false, |cs, i| Ok(OutVar::B(ElementVar::new_constant(cs.clone(), e1(i))?.is_eq(&ElementVar::new_constant(cs.clone(), e2(i))?)?)), |i| Some(Out::B(e1(i) == e2(i))));
    g!(v, "enforce_equal (constant, constant)", "EE", false, |cs, i| { ElementVar::new_constant(cs.clone(), e1(i))?.enforce_equal(&ElementVar::new_constant(cs.clone(), e2(i))?)?; Ok(OutVar::Unit) }, |i| if e1(i) == e2(i) { Some(Out::Unit) } else { None });
    g!(v, "enforce_not_equal (constant, constant)", "EE", false, |cs, i| { ElementVar::new_constant(cs.clone(), e1(i))?.enforce_not_equal(&ElementVar::new_constant(cs.clone(), e2(i))?)?; Ok(OutVar::Unit) }, |i| if e1(i) != e2(i) { Some(Out::Unit) } else { None });
    g!(v, "conditional_enforce_equal (constant, constant)", "EEB", false, |cs, i| { let gd = Boolean::constant(fbool(i)); ElementVar::new_constant(cs.clone(), e1(i))?.conditional_enforce_equal(&ElementVar::new_constant(cs.clone(), e2(i))?, &gd)?; Ok(OutVar::Unit) }, |i| if !fbool(i) || e1(i) == e2(i) { Some(Out::Unit) } else { None });
    g!(v, "conditional_enforce_equal (constant, constant, witness guard)", "EEB", false, |cs, i| { let gd = wb(cs, fbool(i))?; ElementVar::new_constant(cs.clone(), e1(i))?.conditional_enforce_equal(&ElementVar::new_constant(cs.clone(), e2(i))?, &gd)?; Ok(OutVar::Unit) }, |i| if !fbool(i) || e1(i) == e2(i) { Some(Out::Unit) } else { None });
    g!(v, "conditional_enforce_not_equal (constant, constant)", "EEB", false, |cs, i| { let gd = Boolean::constant(fbool(i)); ElementVar::new_constant(cs.clone(), e1(i))?.conditional_enforce_not_equal(&ElementVar::new_constant(cs.clone(), e2(i))?, &gd)?; Ok(OutVar::Unit) }, |i| if !fbool(i) || e1(i) != e2(i) { Some(Out::Unit) } else { None });
    // --- equality family on operands that are both still undecoded encodings (valid or not)
    g!(v, "is_eq (both lazy encodings)", "FF", true, |cs, i| Ok(OutVar::B(lazy_w(cs, &f1(i))?.is_eq(&lazy_w(cs, &f2(i))?)?)), |i| native_pair(i).map(|(a, bb)| Out::B(a == bb)));
    g!(v, "enforce_equal (both lazy encodings)", "FF", true, |cs, i| { lazy_w(cs, &f1(i))?.enforce_equal(&lazy_w(cs, &f2(i))?)?; Ok(OutVar::Unit) }, |i| native_pair(i).and_then(|(a, bb)| if a == bb { Some(Out::Unit) } else { None }));
    g!(v, "enforce_not_equal (both lazy encodings)", "FF", true, |cs, i| { lazy_w(cs, &f1(i))?.enforce_not_equal(&lazy_w(cs, &f2(i))?)?; Ok(OutVar::Unit) }, |i| native_pair(i).and_then(|(a, bb)| if a != bb { Some(Out::Unit) } else { None }));
    g!(v, "conditionally_select (both lazy encodings)", "FF", true, |cs, i| { let gd = wb(cs, true)?; Ok(OutVar::E(ElementVar::conditionally_select(&gd, &lazy_w(cs, &f1(i))?, &lazy_w(cs, &f2(i))?)?)) }, |i| native_pair(i).map(|(a, _)| Out::E(a)));
    g!(v, "lazy + lazy", "FF", true, |cs, i| Ok(OutVar::E(lazy_w(cs, &f1(i))? + lazy_w(cs, &f2(i))?)), |i| native_pair(i).map(|(a, bb)| Out::E(a + bb)));
    // --- the same allocation forced by different first operations
    g!(v, "new_input<Element> forced by value()", "E", true, |cs, i| { let e = e1(i); let var = ElementVar::new_input(cs.clone(), val(e))?; let _ = var.value(); Ok(OutVar::E(var)) }, |i| Some(Out::E(e1(i))));
    g!(v, "new_input<Element> forced by compress_to_field() then value()", "E", true, |cs, i| { let e = e1(i); let var = ElementVar::new_input(cs.clone(), val(e))?; let _ = var.compress_to_field()?; let _ = var.value(); Ok(OutVar::E(var)) }, |i| Some(Out::E(e1(i))));
    g!(v, "new_witness<Fq> forced by value()", "F", true, |cs, i| { let var = lazy_w(cs, &f1(i))?; let _ = var.value(); Ok(OutVar::E(var)) }, |i| dec(&f1(i).to_bytes_le()).ok().map(Out::E));
    g!(v, "new_witness<Fq> forced by negate()", "F", true, |cs, i| Ok(OutVar::E(lazy_w(cs, &f1(i))?.negate()?)), |i| dec(&f1(i).to_bytes_le()).ok().map(|e| Out::E(-e)));
    g!(v, "new_witness<Fq> forced by double()", "F", true, |cs, i| Ok(OutVar::E(lazy_w(cs, &f1(i))?.double()?)), |i| dec(&f1(i).to_bytes_le()).ok().map(|e| Out::E(e + e)));
    g!(v, "new_witness<Fq> forced by to_bits_le()", "F", true, |cs, i| { let var = lazy_w(cs, &f1(i))?; let _ = var.to_bits_le()?; Ok(OutVar::E(var)) }, |i| dec(&f1(i).to_bytes_le()).ok().map(Out::E));
    // --- bit / byte decompositions of the held representative
    g!(v, "to_bits_le", "E", false, |cs, i| Ok(OutVar::Bits(raw(cs, &e1(i))?.to_bits_le()?)), |i| { let (mut x, y) = affine_bits(&e1(i)); x.extend(y); Some(Out::Bits(x)) });
    g!(v, "to_bytes", "E", false, |cs, i| Ok(OutVar::Bytes(raw(cs, &e1(i))?.to_bytes()?)), |i| {
        let (x, y) = affine_bits(&e1(i));
        let mut o = Vec::new();
        for part in [x, y] {
            let mut p = part;
            p.resize(256, false);
            o.extend(p);
        }
        Some(Out::Bits(o))
    });
    // --- field gadgets
    g!(v, "isqrt", "F", true, |cs, i| { let (a, y) = wf(cs, &f1(i))?.isqrt()?; Ok(OutVar::BF(a, y)) }, |i| { let (a, y) = Fq::sqrt_ratio_zeta(&Fq::ONE, &f1(i)); Some(Out::BF(a, y)) });
    g!(v, "is_negative", "F", false, |cs, i| Ok(OutVar::B(wf(cs, &f1(i))?.is_negative()?)), |i| Some(Out::B(f1(i).to_bytes_le()[0] & 1 == 1)));
    g!(v, "is_nonnegative", "F", false, |cs, i| Ok(OutVar::B(wf(cs, &f1(i))?.is_nonnegative()?)), |i| Some(Out::B(f1(i).to_bytes_le()[0] & 1 == 0)));
    g!(v, "abs", "F", false, |cs, i| Ok(OutVar::F(wf(cs, &f1(i))?.abs()?)), |i| Some(Out::F(if f1(i).to_bytes_le()[0] & 1 == 0 { f1(i) } else { -f1(i) })));
    // --- allocation modes
    g!(v, "new_witness<Element>", "E", true, |cs, i| { let e = e1(i); Ok(OutVar::E(ElementVar::new_witness(cs.clone(), val(e))?)) }, |i| Some(Out::E(e1(i))));
    g!(v, "new_witness<AffinePoint>", "E", true, |cs, i| { let a: Af = e1(i).into(); Ok(OutVar::E(ElementVar::new_witness(cs.clone(), val(a))?)) }, |i| Some(Out::E(e1(i))));
    g!(v, "new_constant<Element>", "E", false, |cs, i| { let e = e1(i); Ok(OutVar::E(ElementVar::new_constant(cs.clone(), e)?)) }, |i| Some(Out::E(e1(i))));
    g!(v, "new_input<Element>", "E", true, |cs, i| { let e = e1(i); let var = ElementVar::new_input(cs.clone(), val(e))?; let _ = var.cs(); Ok(OutVar::E(var)) }, |i| Some(Out::E(e1(i))));
    g!(v, "new_input<AffinePoint>", "E", true, |cs, i| { let a: Af = e1(i).into(); let var = ElementVar::new_input(cs.clone(), val(a))?; let _ = var.cs(); Ok(OutVar::E(var)) }, |i| Some(Out::E(e1(i))));
    g!(v, "new_witness<Fq> (lazy encoding) + value", "F", true, |cs, i| { let x = f1(i); let var: ElementVar = AllocVar::<Fq, Fq>::new_witness(cs.clone(), val(x))?; let _ = var.cs(); Ok(OutVar::E(var)) }, |i| dec(&f1(i).to_bytes_le()).ok().map(Out::E));
    g!(v, "new_input<Fq> (lazy encoding) + value", "F", true, |cs, i| { let x = f1(i); let var: ElementVar = AllocVar::<Fq, Fq>::new_input(cs.clone(), val(x))?; let _ = var.cs(); Ok(OutVar::E(var)) }, |i| dec(&f1(i).to_bytes_le()).ok().map(Out::E));
    g!(v, "new_variable_omit_prime_order_check", "E", false, |cs, i| Ok(OutVar::E(raw(cs, &e1(i))?)), |i| Some(Out::E(e1(i))));
    g!(v, "CurveVar::constant", "E", false, |_cs, i| Ok(OutVar::E(<ElementVar as CurveVar<El, Fq>>::constant(e1(i)))), |i| Some(Out::E(e1(i))));
    g!(v, "CurveVar::zero + Var", "E", false, |cs, i| Ok(OutVar::E(<ElementVar as CurveVar<El, Fq>>::zero() + raw(cs, &e1(i))?)), |i| Some(Out::E(e1(i))));
    v
}

/// one honest (or hint-overridden) synthesis of a gadget
pub struct Run {
    pub synth_ok: bool,
    pub synth_err: Option<String>,
    pub satisfied: Option<bool>,
    pub out: Option<Result<Out, String>>,
    pub ncons: usize,
    pub cs: CS,
}

pub fn execute(g: &Gadget, inp: &Inp, setup: bool) -> Run {
    let cs = new_cs(setup);
    let r = (g.run)(&cs, inp);
    match r {
        Err(e) => Run { synth_ok: false, synth_err: Some(format!("{e:?}")), satisfied: None, out: None, ncons: cs.num_constraints(), cs },
        Ok(ov) => {
            let sat = if setup { None } else { cs.is_satisfied().ok() };
            // reading a value can panic inside arkworks (`Affine::new` asserts on-curve): that is
            // an unreadable output of a *satisfied* system, not an aborted synthesis
            let out = if sat == Some(true) {
                Some(match crate::mon::guarded(|| ov.read()) {
                    Ok(r) => r.map_err(|e| format!("{e:?}")),
                    Err(p) => Err(format!("reading the value panicked: {}", p.lines().next().unwrap_or(""))),
                })
            } else {
                None
            };
            Run { synth_ok: true, synth_err: None, satisfied: sat, out, ncons: cs.num_constraints(), cs }
        }
    }
}

// ------------------------------------------------------------------------------------------
// gadget input zoos
// ------------------------------------------------------------------------------------------
pub fn elements_for_gadgets(ctx: &Ctx, rng: &mut rand_chacha::ChaCha20Rng, nrand: usize) -> Vec<SE> {
    // identity, (0,-1), G, both reps, rescalings (raw allocation normalises Z, the coset member stays)
    shadow_zoo(ctx, rng, nrand)
}

pub fn field_inputs_decode(ctx: &Ctx, rng: &mut rand_chacha::ChaCha20Rng, nrand: usize) -> Vec<(B, &'static str)> {
    let c = &ctx.c;
    let q = &c.f.p;
    let mut extra: Vec<(B, &'static str)> = Vec::new();
    // near-valid rejects: non-square discriminant although the candidate point lies on the curve
    for s in crate::eng::decode_nonsquare_oncurve(ctx, rng) {
        extra.push((s.clone(), "nonsquare-candidate-on-curve"));
        extra.push((c.f.neg(&s), "nonsquare-candidate-on-curve"));
    }
    // negative s whose negation is a valid encoding
    for k in [8u64, 2 * 8, 0] {
        let _ = k;
    }
    for s in crate::zoo::smallest_valid_s(c, 6).into_iter().skip(1) {
        extra.push((c.f.neg(&s), "negation of a valid encoding"));
    }
    // special field values (sqrt(-1), zeta, 1/2, d, ...) as encodings
    for v in [c.zeta.clone(), c.f.inv(&c.zeta).unwrap(), c.d.clone(), c.f.inv(&b(2)).unwrap(), c.f.sqrt(&c.f.neg(&b(1))).unwrap()] {
        extra.push((c.f.abs(&v), "special field value"));
    }
    let mut v: Vec<(B, &'static str)> = vec![
        (b(0), "s=0"),
        (b(8), "s=8"),
        (q - b(1), "s=q-1"),
        (b(1), "s=1 (negative)"),
        (b(2), "small-even"),
        (b(4), "small-even"),
        (b(6), "small-even"),
        (q - b(8), "negative of valid"),
        (q - b(2), "q-2"),
        ((q - b(1)) >> 1, "(q-1)/2"),
    ];
    for s in crate::zoo::smallest_valid_s(c, 8) {
        v.push((s, "valid"));
    }
    let mut nsq = 0;
    let mut s = b(10);
    while nsq < 6 {
        if c.decode_spec_fe(&s) == Err(crate::model::SpecErr::NotOnCurve) {
            v.push((s.clone(), "non-square-discriminant"));
            nsq += 1;
        }
        s += b(2);
    }
    for _ in 0..nrand {
        let k = crate::zoo::rand_below(rng, &c.r);
        let p = c.mul(&k, &ctx.g);
        let e = c.encode_spec_fe(&p).unwrap();
        // the negative partner of a full-size valid encoding: q - s0 is odd, and for most s0 the integer
        // (q - s0) + q still fits the bit length of the field (a second, even, representative of the same residue)
        if e != b(0) {
            v.push((q - &e, "negation of a valid encoding"));
        }
        v.push((e, "valid"));
        let r = crate::zoo::rand_below(rng, q);
        v.push((r, "random"));
    }
    v.extend(extra);
    v
}
