//! C05 — scalar multiplication is the Z/r-module action; all elements have order | r.
use crate::ad::*;
use crate::grp::*;
use crate::model::{b, hexs, B};
use crate::mon::{guarded, par, rng_for, Rec};
use crate::sh::*;
use crate::zoo::{rand_below, rand_range, scalar_int_zoo};
use serde_json::json;

const P: &str = "C05";

pub fn run(ctx: &Ctx, rec: &mut Rec) {
    let c = &ctx.c;
    let muls = mul_forms();
    let ints = mulint_forms();
    let msms = msm_forms();
    for f in &muls {
        rec.declare_form(f.name);
    }
    for f in &ints {
        rec.declare_form(f.name);
    }
    for f in &msms {
        rec.declare_form(f.name);
    }
    let szoo = scalar_int_zoo(&c.r);
    for (_, cl) in &szoo {
        rec.declare_class(&format!("k:{cl}"));
    }
    rec.declare_class("k:random");
    rec.declare_class("k:empty-limbs");
    rec.declare_class("k:leading-zero-limbs");
    let mut zrng = rng_for(ctx.seed, P, 999, 0);
    let zoo = shadow_zoo(ctx, &mut zrng, ctx.scale(8, 40));
    // element classes: keep a representative subset for the full cross product
    let mut els: Vec<SE> = Vec::new();
    let mut seen = std::collections::BTreeMap::<&str, usize>::new();
    let per_class = ctx.scale(3, 12);
    for e in &zoo {
        let n = seen.entry(e.class).or_insert(0);
        if *n < per_class {
            *n += 1;
            els.push(e.clone());
        }
    }
    rec.count("element_operands", els.len() as u64);

    // (1) scalar zoo x element classes x all forms
    par(rec, |w, n, rec| {
        let mut rng = rng_for(ctx.seed, P, w, 1);
        let mut task = 0usize;
        for (ei, e) in els.iter().enumerate() {
            // structured scalars + a few random ones per element; the two big families (recoding runs,
            // ladder collisions) go to every 6th element operand (thorough: every 2nd)
            let big = ei % ctx.scale(6, 2) == 0;
            let mut scalars: Vec<(B, &'static str)> = szoo.iter().filter(|(_, cl)| big || !(*cl == "recoding-run" || *cl == "ladder-collision")).cloned().collect();
            for _ in 0..ctx.scale(8, 24) {
                scalars.push((rand_below(&mut rng, &c.r), "random"));
            }
            for (k, kclass) in &scalars {
                task += 1;
                if task % n != w {
                    continue;
                }
                rec.class(&format!("k:{kclass}"));
                rec.class(&format!("P:{}", e.class));
                // the k-fold sum by the *integer* k
                let want_int = c.mul(k, &e.m);
                // field-element forms: the scalar is k mod r
                let kr = k % &c.r;
                let want_fr = if &kr == k { want_int.clone() } else { c.mul(&kr, &e.m) };
                let lk = fr(&kr);
                for f in &muls {
                    rec.form(f.name);
                    rec.eval(&(f.name, e.key(), kr.to_bytes_le()), e.m.x == b(0) || kr == b(0));
                    rec.event(format!("{} k={} P={}", f.name, hexs(&kr), hex::encode(crate::c04::enc_quiet(&e.l))));
                    let l = e.l;
                    let got = guarded(|| (f.f)(&l, &lk));
                    judge(ctx, rec, P, f.name, got, &want_fr, json!({"k": hexs(&kr), "k_class": kclass, "P": el_json(&e.l), "P_class": e.class}));
                }
                // integer forms: arbitrary-length little-endian limbs
                for f in &ints {
                    for extra in [0usize, 2] {
                        let limbs = int_limbs(k, extra);
                        if extra > 0 {
                            rec.class("k:leading-zero-limbs");
                        }
                        if limbs.is_empty() {
                            rec.class("k:empty-limbs");
                        }
                        rec.form(f.name);
                        rec.eval(&(f.name, e.key(), k.to_bytes_le(), extra), e.m.x == b(0) || k == &b(0));
                        let l = e.l;
                        let got = guarded(|| (f.f)(&l, &limbs));
                        judge(ctx, rec, P, f.name, got, &want_int, json!({"k": hexs(k), "k_class": kclass, "limbs": limbs.len(), "P": el_json(&e.l), "P_class": e.class}));
                    }
                }
                if task < 4 {
                    rec.sample(json!({"k": hexs(k), "k_class": kclass, "P_class": e.class, "P": el_json(&e.l), "expected_encoding": hex::encode(c.encode_spec(&want_int).unwrap())}));
                }
            }
        }
    });

    // (1b) coincidences between the base and the scalar: bases with a short affine coordinate (x or y = +-c,
    // both coset members, Z = 1 and rescaled) times the scalars 0..=8, c-2..=c+2 and their negatives mod r,
    // and multi-limb integers whose limbs fold (xor / sum) to those; code that derives a quantity from both
    // operands (blinding factors, table indices, shortcuts) meets its degenerate case on such pairs
    {
        rec.declare_class("k:related-to-base-coordinate");
        let shorts: Vec<&SE> = zoo.iter().filter(|e| e.class == "short-coordinate" || (e.class == "other-rep" && short_mag(c, &e.m).is_some())).collect();
        let mut bases: Vec<SE> = Vec::new();
        for e in zoo.iter() {
            if short_mag(c, &e.m).is_some() && e.m.x != b(0) {
                bases.push(e.clone());
            }
        }
        let _ = shorts;
        rec.count("short_coordinate_bases", bases.len() as u64);
        par(rec, |w, n, rec| {
            let mut task = 0usize;
            for e in &bases {
                let mag = short_mag(c, &e.m).unwrap();
                let mut ks: Vec<B> = (0u64..=8).map(b).collect();
                for d in 0u64..=4 {
                    if mag + d >= 2 {
                        ks.push(b(mag + d - 2));
                    }
                }
                let more: Vec<B> = ks.iter().map(|k| (&c.r - k) % &c.r).collect();
                ks.extend(more);
                // two-limb integers whose limbs xor / add to the small value
                let fold: Vec<B> = ks.iter().take(14).flat_map(|k| {
                    let k0 = k.to_u64_digits().first().copied().unwrap_or(0);
                    let hi = 0x0123_4567_89ab_cdefu64;
                    [b(hi ^ k0) + (b(hi) << 64), b(k0.wrapping_sub(hi)) + (b(hi) << 64)]
                }).collect();
                ks.extend(fold);
                ks.sort();
                ks.dedup();
                for k in &ks {
                    task += 1;
                    if task % n != w {
                        continue;
                    }
                    rec.class("k:related-to-base-coordinate");
                    rec.class(&format!("P:{}", e.class));
                    let want_int = c.mul(k, &e.m);
                    let kr = k % &c.r;
                    let want_fr = if &kr == k { want_int.clone() } else { c.mul(&kr, &e.m) };
                    let lk = fr(&kr);
                    for f in &muls {
                        rec.form(f.name);
                        rec.eval(&(f.name, e.key(), kr.to_bytes_le(), 1u8), kr == b(0));
                        let l = e.l;
                        let got = guarded(|| (f.f)(&l, &lk));
                        judge(ctx, rec, P, f.name, got, &want_fr, json!({"k": hexs(&kr), "k_class": "related-to-base-coordinate", "P": el_json(&e.l), "P_class": e.class}));
                    }
                    for f in &ints {
                        let limbs = int_limbs(k, 0);
                        rec.form(f.name);
                        rec.eval(&(f.name, e.key(), k.to_bytes_le(), 7u8), k == &b(0));
                        let l = e.l;
                        let got = guarded(|| (f.f)(&l, &limbs));
                        judge(ctx, rec, P, f.name, got, &want_int, json!({"k": hexs(k), "k_class": "related-to-base-coordinate", "limbs": limbs.len(), "P": el_json(&e.l), "P_class": e.class}));
                    }
                }
            }
        });
    }

    // (2) group order: r*P is an identity representative for every zoo element, G != identity
    par(rec, |w, n, rec| {
        let rl = int_limbs(&c.r, 0);
        for (i, e) in zoo.iter().enumerate() {
            if i % n != w {
                continue;
            }
            for f in &ints {
                rec.form(f.name);
                rec.eval(&("order", f.name, e.key()), false);
                rec.count("order_checks", 1);
                let l = e.l;
                let rl2 = rl.clone();
                match guarded(|| { let x = (f.f)(&l, &rl2); (x.is_identity(), x == El::IDENTITY, enc(&x)) }) {
                    Err(p) => rec.violation(format!("{P}:order:panic"), format!("r*P panicked: {p}"), json!({"P": el_json(&e.l)})),
                    Ok((a, bb, bytes)) => {
                        if !(a && bb && bytes == [0u8; 32]) {
                            rec.violation(format!("{P}:order:rP-not-identity"), format!("r*P is not the identity via {} (is_identity={a}, ==IDENTITY={bb})", f.name), json!({"P": el_json(&e.l), "enc": hex::encode(bytes)}));
                        }
                    }
                }
            }
        }
    });
    {
        let g = El::GENERATOR;
        rec.evals += 1;
        if g.is_identity() || g == El::IDENTITY || enc(&g) == [0u8; 32] {
            rec.violation(format!("{P}:order:generator-is-identity"), "GENERATOR is the identity", json!({}));
        }
        if let Err(why) = denotes(c, &g, &ctx.g) {
            rec.violation(format!("{P}:order:generator"), format!("GENERATOR is not decodeSpec(8): {why}"), json!({}));
        }
    }

    // (3) module laws through the library only
    par(rec, |w, n, rec| {
        let mut rng = rng_for(ctx.seed, P, w, 3);
        let reps = ctx.scale(3000, 40000);
        for rep in 0..reps {
            if rep % n != w {
                continue;
            }
            let p = &zoo[rand_range(&mut rng, zoo.len())];
            let q = &zoo[rand_range(&mut rng, zoo.len())];
            let a = rand_below(&mut rng, &c.r);
            let bb = if rep % 5 == 0 { &c.r - &a } else { rand_below(&mut rng, &c.r) };
            let (la, lb) = (fr(&a), fr(&(&bb % &c.r)));
            let f1 = &muls[rand_range(&mut rng, muls.len())];
            let f2 = &muls[rand_range(&mut rng, muls.len())];
            let (lp, lq) = (p.l, q.l);
            rec.eval(&("laws", p.key(), q.key(), a.to_bytes_le(), bb.to_bytes_le()), false);
            rec.count("law_checks", 4);
            let res = guarded(|| {
                let mut bad: Vec<&'static str> = Vec::new();
                if (f1.f)(&lp, &(la + lb)) != (f2.f)(&lp, &la) + (f1.f)(&lp, &lb) {
                    bad.push("additive-in-scalar");
                }
                if (f1.f)(&lp, &(la * lb)) != (f2.f)(&(f1.f)(&lp, &la), &lb) {
                    bad.push("multiplicative-in-scalar");
                }
                if (f1.f)(&(lp + lq), &la) != (f1.f)(&lp, &la) + (f2.f)(&lq, &la) {
                    bad.push("additive-in-point");
                }
                if (f1.f)(&lp, &la) != (f2.f)(&lp, &la) {
                    bad.push("forms-disagree");
                }
                bad
            });
            match res {
                Err(pn) => rec.violation(format!("{P}:laws:panic"), format!("panic in law check: {pn}"), json!({"P": el_json(&p.l), "a": hexs(&a), "b": hexs(&bb)})),
                Ok(bad) => {
                    for law in bad {
                        rec.violation(format!("{P}:laws:{law}"), format!("module law {law} failed (forms {} / {})", f1.name, f2.name), json!({"P": el_json(&p.l), "Q": el_json(&q.l), "a": hexs(&a), "b": hexs(&bb)}));
                    }
                }
            }
        }
    });

    // (4) multi-scalar forms against the sum of the individual model products
    if !msms.is_empty() {
        let sizes: Vec<usize> = if ctx.tier_thorough { vec![0, 1, 2, 3, 7, 31, 32, 33, 100, 255, 256, 1000] } else { vec![0, 1, 2, 3, 31, 32, 33, 100] };
        par(rec, |w, n, rec| {
            let mut rng = rng_for(ctx.seed, P, w, 4);
            let reps = ctx.scale(2, 6);
            let mut task = 0;
            for rep in 0..reps {
                for &size in &sizes {
                    task += 1;
                    if task % n != w {
                        continue;
                    }
                    let mut pts: Vec<SE> = Vec::new();
                    let mut ks: Vec<B> = Vec::new();
                    for i in 0..size {
                        pts.push(zoo[rand_range(&mut rng, zoo.len())].clone());
                        let k = match (i + rep) % 8 {
                            0 => b(0),
                            1 => &c.r - b(1),
                            2 => b(1),
                            3 => (b(1) << (3 * (i % 80))) % &c.r,
                            // all-ones runs (carry chains of the signed-digit recoding) and values next to r
                            4 => ((b(1) << (1 + (7 * i + rep) % 250)) - b(1)) % &c.r,
                            5 => &c.r - b(2 + (i % 5) as u64),
                            _ => rand_below(&mut rng, &c.r),
                        };
                        ks.push(k);
                    }
                    // planted repetitions: the same element twice or more (also as the other coset member / rescaled)
                    if size >= 2 && (rep + size) % 2 == 0 {
                        let src = pts[0].clone();
                        pts[size - 1] = if rep % 2 == 0 { src.clone() } else { SE { l: from_pt_scaled(c, &c.torque(&src.m), &b(3 + rep as u64)), m: c.torque(&src.m), class: "planted other-rep" } };
                        if size >= 4 {
                            pts[size / 2] = src;
                        }
                    }
                    let mut want = c.identity();
                    for (p, k) in pts.iter().zip(ks.iter()) {
                        want = c.add(&want, &c.mul(k, &p.m));
                    }
                    let lp: Vec<El> = pts.iter().map(|p| p.l).collect();
                    let lk: Vec<Fr> = ks.iter().map(fr).collect();
                    for f in &msms {
                        rec.form(f.name);
                        rec.eval(&(f.name, size, rep, pts.iter().map(|p| p.key()).collect::<Vec<_>>()), size == 0);
                        rec.count("msm_terms", size as u64);
                        let (lp2, lk2) = (lp.clone(), lk.clone());
                        let got = guarded(|| (f.f)(&lp2, &lk2));
                        judge(ctx, rec, P, f.name, got, &want, json!({"msm_size": size}));
                    }
                }
            }
        });
    }
    rec.check_coverage();
}

/// magnitude c <= 400 when an affine coordinate of either coset member is +-c
fn short_mag(c: &crate::model::Curve, m: &crate::model::Pt) -> Option<u64> {
    let lim = b(400);
    for v in [&m.x, &m.y] {
        for w in [v.clone(), c.f.neg(v)] {
            if w <= lim && w != b(0) && w != b(1) {
                return w.to_u64_digits().first().copied();
            }
        }
    }
    None
}
