//! C10 — field arithmetic is exact arithmetic mod p in all three fields, both backends.
use crate::ad::*;
use crate::fld::*;
use crate::model::{b, hexs, B};
use crate::mon::{guarded, par, rng_for, Rec};
use crate::sh::*;
use crate::zoo::{field_core, field_random, field_zoo, rand_below, rand_range, Tagged};
use rand_core::RngCore;
use serde_json::json;

const P: &str = "C10";

fn model_bin(f: &crate::model::Fld, op: Op2, a: &B, bb: &B) -> Option<B> {
    Some(match op {
        Op2::Add => f.add(a, bb),
        Op2::Sub => f.sub(a, bb),
        Op2::Mul => f.mul(a, bb),
        Op2::Div => return f.div(a, bb),
    })
}

fn one_bin<F: FieldLike>(ctx: &Ctx, rec: &mut Rec, form: &Bin<F>, a: &Tagged, bb: &Tagged) {
    let f = F::fld(ctx);
    let name = format!("{}: {}", F::NAME, form.name);
    rec.form(&name);
    rec.eval(&(F::NAME, form.name, a.0.to_bytes_le(), bb.0.to_bytes_le()), a.0 <= b(1) && bb.0 <= b(1));
    let want = model_bin(f, form.op, &a.0, &bb.0);
    let (la, lb) = (F::from_b(&a.0), F::from_b(&bb.0));
    let got = guarded(|| (form.f)(la, lb).to_b());
    let detail = || json!({"field": F::NAME, "form": form.name, "a": hexs(&a.0), "a_class": a.1, "b": hexs(&bb.0), "b_class": bb.1});
    match (want, got) {
        (None, Err(_)) => rec.count("division_by_zero_panics (documented behaviour)", 1),
        (None, Ok(v)) => rec.violation(format!("{P}:{name}:div-by-zero-returned"), format!("division by zero returned {}", hexs(&v)), detail()),
        (Some(_), Err(pn)) => rec.violation(format!("{P}:{name}:panic"), format!("{name} panicked: {pn}"), detail()),
        (Some(w), Ok(v)) => {
            if w != v {
                rec.violation(format!("{P}:{name}:wrong-result"), format!("{name}: got {} expected {}", hexs(&v), hexs(&w)), detail());
            }
        }
    }
}

fn run_field<F: FieldLike>(ctx: &Ctx, rec: &mut Rec) {
    let f = F::fld(ctx);
    let bins = F::bins();
    let uns = F::uns();
    let folds = F::folds();
    let invs = F::invs();
    let pows = F::pows();
    for x in &bins {
        rec.declare_form(&format!("{}: {}", F::NAME, x.name));
    }
    for x in &uns {
        rec.declare_form(&format!("{}: {}", F::NAME, x.name));
    }
    for x in &folds {
        rec.declare_form(&format!("{}: {}", F::NAME, x.name));
    }
    for x in &invs {
        rec.declare_form(&format!("{}: {}", F::NAME, x.name));
    }
    for x in &pows {
        rec.declare_form(&format!("{}: {}", F::NAME, x.name));
    }
    let zoo = field_zoo(f);
    let core = field_core(f);
    for (_, cl) in zoo.iter() {
        rec.declare_class(&format!("{}:{}", F::NAME, cl));
    }
    rec.count(&format!("{} zoo size", F::NAME), zoo.len() as u64);
    {
        // how far the divstep-worst-case members actually drive the inversion loop (model-side count)
        let worst = zoo.iter().filter(|z| z.1 == "divstep-worst-case").map(|z| crate::zoo::divsteps(&f.p, &z.0)).max().unwrap_or(0);
        rec.count(&format!("{} max divsteps among zoo values (uniform inputs: about {})", F::NAME, (f.bits * 207) / 100), worst as u64);
    }

    // binary forms: all pairs of the core zoo x all forms; seeded sample of full-zoo pairs
    par(rec, |w, n, rec| {
        let mut rng = rng_for(ctx.seed, P, w, F::NBYTES as u64);
        let mut task = 0usize;
        for a in &core {
            for bb in &core {
                task += 1;
                if task % n != w {
                    continue;
                }
                for form in &bins {
                    one_bin::<F>(ctx, rec, form, a, bb);
                }
            }
        }
        // zoo x zoo: thorough = every pair with a rotating subset of forms; quick = seeded sample
        // (the zoo has grown to several thousand members: the number of pairs is budgeted, the stride is
        // coprime to the zoo size so that every row and column is visited)
        let total = zoo.len() * zoo.len();
        let mut stride = (total / ctx.scale(250_000, 4_000_000)).max(1);
        let gcd = |mut a: usize, mut b: usize| { while b != 0 { let t = a % b; a = b; b = t; } a };
        while gcd(stride, zoo.len()) != 1 {
            stride += 1;
        }
        let mut idx = rand_range(&mut rng, stride);
        while idx < total {
            let (i, j) = (idx / zoo.len(), idx % zoo.len());
            if idx % n == w {
                rec.class(&format!("{}:{}", F::NAME, zoo[i].1));
                for k in 0..4 {
                    let form = &bins[(idx * 7 + k * 11) % bins.len()];
                    one_bin::<F>(ctx, rec, form, &zoo[i], &zoo[j]);
                }
            }
            idx += stride;
        }
        // random pairs x all forms
        let nr = ctx.scale(3000, 60_000);
        for r in 0..nr {
            if r % n != w {
                continue;
            }
            let a = (rand_below(&mut rng, &f.p), "random");
            let bb = if r % 10 == 0 { (f.neg(&a.0), "random") } else { (rand_below(&mut rng, &f.p), "random") };
            for form in &bins {
                one_bin::<F>(ctx, rec, form, &a, &bb);
            }
        }
    });

    // unary forms, inverses on the whole zoo + random
    par(rec, |w, n, rec| {
        let mut rng = rng_for(ctx.seed, P, w, 100 + F::NBYTES as u64);
        let mut vals: Vec<Tagged> = zoo.clone();
        vals.extend(field_random(f, &mut rng, ctx.scale(300, 30_000)));
        for (i, a) in vals.iter().enumerate() {
            if i % n != w {
                continue;
            }
            let la = F::from_b(&a.0);
            for form in &uns {
                let name = format!("{}: {}", F::NAME, form.name);
                rec.form(&name);
                rec.eval(&(F::NAME, form.name, a.0.to_bytes_le()), a.0 <= b(1));
                let want = match form.op {
                    Op1::Neg => f.neg(&a.0),
                    Op1::Square => f.sq(&a.0),
                    Op1::Double => f.add(&a.0, &a.0),
                    Op1::Id => a.0.clone(),
                };
                match guarded(|| (form.f)(la).to_b()) {
                    Err(pn) => rec.violation(format!("{P}:{name}:panic"), pn, json!({"a": hexs(&a.0)})),
                    Ok(v) => {
                        if v != want {
                            rec.violation(format!("{P}:{name}:wrong-result"), format!("{name}: got {} expected {}", hexs(&v), hexs(&want)), json!({"a": hexs(&a.0), "class": a.1}));
                        }
                    }
                }
            }
            for form in &invs {
                let name = format!("{}: {}", F::NAME, form.name);
                rec.form(&name);
                rec.eval(&(F::NAME, form.name, a.0.to_bytes_le()), false);
                let want = f.inv(&a.0);
                match guarded(|| (form.f)(la).map(|x| x.to_b())) {
                    Err(pn) => rec.violation(format!("{P}:{name}:panic"), pn, json!({"a": hexs(&a.0)})),
                    Ok(v) => {
                        if v != want {
                            rec.violation(format!("{P}:{name}:wrong-result"), format!("{name}: got {:?} expected {:?}", v.as_ref().map(hexs), want.as_ref().map(hexs)), json!({"a": hexs(&a.0), "class": a.1}));
                        }
                    }
                }
            }
            if i < 2 {
                rec.sample(json!({"field": F::NAME, "a": hexs(&a.0), "class": a.1, "unary_forms": uns.len(), "inverse": f.inv(&a.0).map(|x| hexs(&x))}));
            }
        }
    });

    // exponentiation with multi-limb exponents. Phase 0 keeps the lowest limb tiny and puts the
    // weight into the higher limbs (cheap even for an implementation that is linear in exp[0]);
    // forms that already failed there are not hammered with full-size exponents in phase 1.
    for phase in 0..2 {
        let broken: Vec<String> = rec.sigs_seen.keys().cloned().collect();
        par(rec, |w, n, rec| {
            let mut rng = rng_for(ctx.seed, P, w, 200 + phase + F::NBYTES as u64);
            let reps = ctx.scale(1500, 20_000);
            for rep in 0..reps {
                if rep % n != w {
                    continue;
                }
                let a = if rep % 4 == 0 { zoo[rand_range(&mut rng, zoo.len())].0.clone() } else { rand_below(&mut rng, &f.p) };
                let nl = rep % 6; // 0..=5 limbs
                let mut limbs: Vec<u64> = (0..nl).map(|_| rand_below(&mut rng, &(b(1) << 64)).to_u64_digits().first().copied().unwrap_or(0)).collect();
                // sparse / structured limb patterns: zero limbs below non-zero ones, single high bit,
                // all-ones limbs (every third repetition)
                if rep % 3 == 0 {
                    for l in limbs.iter_mut() {
                        *l = match rand_range(&mut rng, 6) {
                            0 | 1 => 0,
                            2 => 1,
                            3 => u64::MAX,
                            4 => 1u64 << rand_range(&mut rng, 64),
                            _ => *l,
                        };
                    }
                    if rep % 6 == 0 {
                        if let Some(last) = limbs.last_mut() {
                            if *last == 0 {
                                *last = 1;
                            }
                        }
                    }
                }
                if phase == 0 {
                    if let Some(l0) = limbs.first_mut() {
                        *l0 %= 4096;
                    }
                } else {
                    match rep % 5 {
                        1 => {
                            for l in limbs.iter_mut() {
                                *l = u64::MAX;
                            }
                        }
                        2 => {
                            // p - 1 (Fermat) and p - 2
                            limbs = crate::model::limbs64(&(&f.p - b(1 + (rep % 2) as u64)), (f.bits + 63) / 64);
                        }
                        3 => {
                            // multiples of the group order and their neighbours: k(p-1) + delta, k = 0..=16 (an
                            // exponent "reduced mod p-1" first is only right for non-zero bases)
                            let k = (rep / 5) % 17;
                            let e = (&f.p - b(1)) * b(k as u64);
                            let e = match (rep / 85) % 3 { 0 => e, 1 => e + b(1), _ => if e > b(0) { e - b(1) } else { e } };
                            limbs = e.to_u64_digits();
                        }
                        4 => {
                            // very long exponents: 6..=17 limbs, weight in the high limbs only or everywhere
                            let nlong = 6 + (rep / 5) % 12;
                            limbs = (0..nlong).map(|i| if (rep / 60) % 2 == 0 && i + 2 < nlong { 0 } else { rng.next_u64() }).collect();
                        }
                        _ => {}
                    }
                }
                // bases for the structured exponents: 0, 1, -1 and 2 as well as the zoo / random ones
                let a = if phase == 1 && rep % 5 == 3 { match (rep / 5) % 5 { 0 => b(0), 1 => b(1), 2 => &f.p - b(1), 3 => b(2), _ => a } } else { a };
                let e = crate::model::from_limbs64(&limbs);
                let want = f.pow(&a, &e);
                let la = F::from_b(&a);
                for form in &pows {
                    let name = format!("{}: {}", F::NAME, form.name);
                    if phase == 1 && broken.iter().any(|s| s.contains(&name)) {
                        continue;
                    }
                    rec.form(&name);
                    rec.eval(&(F::NAME, form.name, a.to_bytes_le(), limbs.clone()), limbs.iter().all(|x| *x == 0));
                    let l2 = limbs.clone();
                    match guarded(|| (form.f)(la, &l2).to_b()) {
                        Err(pn) => rec.violation(format!("{P}:{name}:panic"), format!("{name} panicked on a {}-limb exponent: {pn}", limbs.len()), json!({"a": hexs(&a), "exp_limbs": limbs})),
                        Ok(v) => {
                            if v != want {
                                rec.violation(format!("{P}:{name}:wrong-result"), format!("{name} ({} limbs): got {} expected {}", limbs.len(), hexs(&v), hexs(&want)), json!({"a": hexs(&a), "exp_limbs": limbs}));
                            }
                        }
                    }
                }
            }
        });
    }

    // sums and products over iterators
    par(rec, |w, n, rec| {
        let mut rng = rng_for(ctx.seed, P, w, 300 + F::NBYTES as u64);
        let reps = ctx.scale(400, 6000);
        for rep in 0..reps {
            if rep % n != w {
                continue;
            }
            // long lists (lazy / chunked reduction strategies): a few per run, filled with one extreme value
            // (all internal residues just below p, just above 0, ...), an arithmetic progression of such
            // values, or random elements
            let long: Vec<usize> = if rep < 64 { vec![[31usize, 32, 33, 63, 64, 65, 100, 127, 128, 129, 255, 256, 257, 1000, 1025][rep % 15]] } else { vec![] };
            for len in [0usize, 1, 2, 3, 17].into_iter().chain(long.into_iter()) {
                let is_long = len > 17;
                let extremes: Vec<&B> = zoo.iter().filter(|z| z.1 == "montgomery-extreme" || z.1 == "p-1" || z.1 == "-R").map(|z| &z.0).collect();
                let base = extremes[(rep / 15) % extremes.len()].clone();
                let xs: Vec<B> = (0..len).map(|i| {
                    if is_long {
                        match (rep / 15) % 3 { 0 => base.clone(), 1 => f.mul(&base, &b(1 + i as u64)), _ => rand_below(&mut rng, &f.p) }
                    } else if (rep + i) % 5 == 0 { zoo[rand_range(&mut rng, zoo.len())].0.clone() } else { rand_below(&mut rng, &f.p) }
                }).collect();
                let ys: Vec<B> = (0..len).map(|_| rand_below(&mut rng, &f.p)).collect();
                let lx: Vec<F> = xs.iter().map(F::from_b).collect();
                let ly: Vec<F> = ys.iter().map(F::from_b).collect();
                for form in &folds {
                    if is_long && form.kind == FoldKind::SumOfProducts {
                        continue; // const-generic lengths
                    }
                    let name = format!("{}: {}", F::NAME, form.name);
                    rec.form(&name);
                    rec.eval(&(F::NAME, form.name, xs.iter().map(|x| x.to_bytes_le()).collect::<Vec<_>>()), len == 0);
                    let want = match form.kind {
                        FoldKind::Sum => xs.iter().fold(b(0), |acc, x| f.add(&acc, x)),
                        FoldKind::Product => xs.iter().fold(b(1), |acc, x| f.mul(&acc, x)),
                        FoldKind::SumOfProducts => xs.iter().zip(ys.iter()).fold(b(0), |acc, (x, y)| f.add(&acc, &f.mul(x, y))),
                        FoldKind::SplitSum => {
                            let g = (len + 1) / 2;
                            let head = xs[..g].iter().fold(b(0), |acc, x| f.add(&acc, x));
                            let tail = xs[g..].iter().fold(b(0), |acc, x| f.add(&acc, x));
                            f.sub(&head, &tail)
                        }
                        FoldKind::SplitProduct => {
                            let g = (len + 1) / 2;
                            let head = xs[..g].iter().fold(b(1), |acc, x| f.mul(&acc, x));
                            let tail = xs[g..].iter().fold(b(1), |acc, x| f.mul(&acc, x));
                            f.mul(&head, &f.sq(&tail))
                        }
                    };
                    let (lx2, ly2) = (lx.clone(), ly.clone());
                    match guarded(|| (form.f)(&lx2, &ly2).to_b()) {
                        Err(pn) => rec.violation(format!("{P}:{name}:panic"), pn, json!({"len": len})),
                        Ok(v) => {
                            if v != want {
                                rec.violation(format!("{P}:{name}:wrong-result"), format!("{name} over {len} items: got {} expected {}", hexs(&v), hexs(&want)), json!({"items": xs.iter().map(hexs).collect::<Vec<_>>()}));
                            }
                        }
                    }
                }
            }
        }
    });
}

/// subtle::ConditionallySelectable / ConstantTimeEq for Fq (both builds)
fn fq_subtle(ctx: &Ctx, rec: &mut Rec) {
    use subtle::{Choice, ConditionallySelectable, ConstantTimeEq};
    let f = &ctx.c.f;
    let zoo = field_zoo(f);
    for nm in ["Fq: conditional_select", "Fq: conditional_assign", "Fq: conditional_swap", "Fq: ct_eq", "Fq: ct_ne"] {
        rec.declare_form(nm);
    }
    let rinv = f.inv(&((b(1) << 256) % &f.p)).unwrap();
    par(rec, |w, n, rec| {
        let mut rng = rng_for(ctx.seed, P, w, 77);
        let reps = ctx.scale(4000, 400_000);
        for rep in 0..reps {
            if rep % n != w {
                continue;
            }
            let a = if rep % 2 == 0 { zoo[rand_range(&mut rng, zoo.len())].0.clone() } else { rand_below(&mut rng, &f.p) };
            let bb = match rep % 8 {
                0 => a.clone(),
                1 => zoo[rand_range(&mut rng, zoo.len())].0.clone(),
                // distinct elements whose *internal* (Montgomery) representations differ in exactly one
                // 32/64-bit limb: b = a + d * 2^(32 i) * R^-1
                2 | 3 | 4 => {
                    let i = rand_range(&mut rng, 8);
                    let d = match rep % 3 { 0 => b(1), 1 => b(1) << 31, _ => rand_below(&mut rng, &(b(1) << 32)) + b(1) };
                    f.add(&a, &f.mul(&f.mul(&d, &(b(1) << (32 * i))), &rinv))
                }
                // ... or whose canonical forms differ in exactly one limb
                5 => (&a ^ (b(1) << (32 * rand_range(&mut rng, 8) + rand_range(&mut rng, 32)))) % &f.p,
                _ => rand_below(&mut rng, &f.p),
            };
            let (la, lb) = (fq(&a), fq(&bb));
            rec.eval(&("subtle", a.to_bytes_le(), bb.to_bytes_le()), false);
            let res = guarded(|| {
                let mut out: Vec<(&'static str, bool)> = Vec::new();
                for ch in [0u8, 1] {
                    let want = if ch == 1 { lb } else { la };
                    let s = Fq::conditional_select(&la, &lb, Choice::from(ch));
                    out.push(("Fq: conditional_select", s == want && fqb(&s) == fqb(&want)));
                    let mut x = la;
                    x.conditional_assign(&lb, Choice::from(ch));
                    out.push(("Fq: conditional_assign", fqb(&x) == fqb(&want)));
                    let (mut p, mut q) = (la, lb);
                    Fq::conditional_swap(&mut p, &mut q, Choice::from(ch));
                    let (wp, wq) = if ch == 1 { (lb, la) } else { (la, lb) };
                    out.push(("Fq: conditional_swap", fqb(&p) == fqb(&wp) && fqb(&q) == fqb(&wq)));
                }
                out.push(("Fq: ct_eq", bool::from(la.ct_eq(&lb)) == (la == lb)));
                out.push(("Fq: ct_ne", bool::from(la.ct_ne(&lb)) == (la != lb)));
                out
            });
            match res {
                Err(pn) => rec.violation(format!("{P}:Fq subtle:panic"), pn, json!({"a": hexs(&a), "b": hexs(&bb)})),
                Ok(out) => {
                    for (nm, ok) in out {
                        rec.form(nm);
                        if !ok {
                            rec.violation(format!("{P}:{nm}:wrong-result"), format!("{nm} did not return exactly one of its operands / disagrees with =="), json!({"a": hexs(&a), "b": hexs(&bb), "a==b": a == bb}));
                        }
                    }
                }
            }
        }
    });
}

/// The 32-bit fiat backend of Fr is a public module even in the arkworks build; it only
/// offers the inherent wrapper methods, so values are built from ONE by double-and-add.
#[cfg(feature = "ark")]
fn fr_u32_backend(ctx: &Ctx, rec: &mut Rec) {
    use decaf377::fields::fr::u32::Fr as Fr32;
    let f = &ctx.fr;
    let zoo = field_zoo(f);
    for nm in ["Fr(u32 backend): add", "Fr(u32 backend): sub", "Fr(u32 backend): mul", "Fr(u32 backend): neg", "Fr(u32 backend): square", "Fr(u32 backend): inverse"] {
        rec.declare_form(nm);
    }
    fn build(v: &B) -> Fr32 {
        let mut acc = Fr32::ZERO;
        for i in (0..v.bits()).rev() {
            acc = acc.add(&acc);
            if v.bit(i) {
                acc = acc.add(&Fr32::ONE);
            }
        }
        acc
    }
    let tb = |x: &Fr32| crate::model::from_le(&x.to_bytes_le());
    par(rec, |w, n, rec| {
        let mut rng = rng_for(ctx.seed, P, w, 555);
        let reps = ctx.scale(600, 60_000);
        for rep in 0..reps {
            if rep % n != w {
                continue;
            }
            let a = if rep % 3 == 0 { zoo[rand_range(&mut rng, zoo.len())].0.clone() } else { rand_below(&mut rng, &f.p) };
            let bb = if rep % 4 == 0 { zoo[rand_range(&mut rng, zoo.len())].0.clone() } else { rand_below(&mut rng, &f.p) };
            rec.eval(&("fr32", a.to_bytes_le(), bb.to_bytes_le()), false);
            let res = guarded(|| {
                let (la, lb) = (build(&a), build(&bb));
                vec![
                    ("Fr(u32 backend): add", tb(&la.add(&lb)), Some(f.add(&a, &bb))),
                    ("Fr(u32 backend): sub", tb(&la.sub(&lb)), Some(f.sub(&a, &bb))),
                    ("Fr(u32 backend): mul", tb(&la.mul(&lb)), Some(f.mul(&a, &bb))),
                    ("Fr(u32 backend): neg", tb(&la.neg()), Some(f.neg(&a))),
                    ("Fr(u32 backend): square", tb(&la.square()), Some(f.sq(&a))),
                    ("Fr(u32 backend): inverse", la.inverse().map(|x| tb(&x)).unwrap_or(b(0)), Some(f.inv(&a).unwrap_or(b(0)))),
                    ("Fr(u32 backend): build", tb(&la), Some(a.clone())),
                ]
            });
            match res {
                Err(pn) => rec.violation(format!("{P}:Fr(u32 backend):panic"), pn, json!({"a": hexs(&a), "b": hexs(&bb)})),
                Ok(out) => {
                    for (nm, got, want) in out {
                        rec.form(nm);
                        if Some(&got) != want.as_ref() {
                            rec.violation(format!("{P}:{nm}:wrong-result"), format!("{nm}: got {} expected {:?}", hexs(&got), want.as_ref().map(hexs)), json!({"a": hexs(&a), "b": hexs(&bb)}));
                        }
                    }
                }
            }
        }
    });
}

pub fn run(ctx: &Ctx, rec: &mut Rec) {
    run_field::<Fq>(ctx, rec);
    run_field::<Fr>(ctx, rec);
    run_field::<Fp>(ctx, rec);
    fq_subtle(ctx, rec);
    #[cfg(feature = "ark")]
    fr_u32_backend(ctx, rec);
    #[cfg(feature = "ark")]
    {
        // degree-1 extension bookkeeping: from_base_prime_field_elems takes exactly one element
        use ark_ff::Field;
        macro_rules! arity {
            ($F:ty, $name:literal) => {{
                let nm = concat!($name, ": Field::from_base_prime_field_elems (wrong arity)");
                rec.declare_form(nm);
                let a = <$F>::from(7u64);
                for len in [0usize, 1, 2, 3, 17] {
                    rec.form(nm);
                    rec.evals += 1;
                    let v = vec![a; len];
                    match guarded(|| <$F as Field>::from_base_prime_field_elems(&v)) {
                        Ok(r) => {
                            if r.is_some() != (len == 1) || (len == 1 && r != Some(a)) {
                                rec.violation(format!("{P}:{nm}"), format!("from_base_prime_field_elems on {len} elements returned {}", if r.is_some() { "Some" } else { "None" }), json!({"len": len}));
                            }
                        }
                        Err(pn) => rec.violation(format!("{P}:{nm}:panic"), pn, json!({"len": len})),
                    }
                }
            }};
        }
        arity!(Fq, "Fq");
        arity!(Fr, "Fr");
        arity!(Fp, "Fp");
    }
    rec.check_coverage();
}
