//! C16 — the BLS12-377 engine over the crate's own fields equals the reference arkworks engine.
use crate::ad::*;
use crate::model::{b, hexs, B};
use crate::mon::{guarded, hx, par, rng_for, Rec};
use crate::sh::*;
use crate::zoo::{field_zoo, rand_below, rand_range};
use ark_ec::pairing::{Pairing, PairingOutput};
use ark_ec::{AffineRepr, CurveGroup, Group};
use ark_ff::{Field, One, PrimeField, UniformRand, Zero};
use ark_serialize::{CanonicalDeserialize, CanonicalSerialize, Compress, Validate};
use rand_core::RngCore;
use serde_json::json;

const P: &str = "C16";
type Ours = decaf377::Bls12_377;
type Refe = ark_bls12_377::Bls12_377;

fn ser<T: CanonicalSerialize>(x: &T, c: Compress) -> Vec<u8> {
    let mut o = Vec::new();
    x.serialize_with_mode(&mut o, c).expect("serialize");
    o
}
/// everything observable about a decoded affine point, as bytes comparable across the two engines: the canonical
/// serialisation, the stored coordinates and infinity flag themselves, and the identity predicates (equality with
/// identity(), is_zero(), hash equal to the hash of identity())
fn obs<C: ark_ec::short_weierstrass::SWCurveConfig>(p: &ark_ec::short_weierstrass::Affine<C>) -> Vec<u8> {
    use std::hash::{Hash, Hasher};
    let mut o = ser(p, Compress::No);
    o.extend(ser(&p.x, Compress::No));
    o.extend(ser(&p.y, Compress::No));
    let id = ark_ec::short_weierstrass::Affine::<C>::identity();
    let h = |q: &ark_ec::short_weierstrass::Affine<C>| { let mut h = std::collections::hash_map::DefaultHasher::new(); q.hash(&mut h); h.finish() };
    o.extend([p.infinity as u8, (*p == id) as u8, p.is_zero() as u8, (h(p) == h(&id)) as u8, (p.into_group() == id.into_group()) as u8, p.xy().is_some() as u8]);
    o
}
fn de<T: CanonicalDeserialize>(bts: &[u8], c: Compress) -> Result<T, String> {
    T::deserialize_with_mode(bts, c, Validate::Yes).map_err(|e| format!("{e:?}"))
}
fn our_scalar(v: &B) -> <Ours as Pairing>::ScalarField {
    fq(v)
}
fn ref_scalar(v: &B) -> <Refe as Pairing>::ScalarField {
    <Refe as Pairing>::ScalarField::from_le_bytes_mod_order(&crate::model::to_le(v, 32))
}

fn cmp_bytes(rec: &mut Rec, what: &str, a: &[u8], bb: &[u8], detail: serde_json::Value) -> bool {
    if a != bb {
        rec.violation(format!("{P}:{what}:bytes-differ"), format!("{what}: crate engine gives {} but the reference engine gives {}", hx(&a[..a.len().min(64)]), hx(&bb[..bb.len().min(64)])), detail);
        false
    } else {
        true
    }
}

pub fn run(ctx: &Ctx, rec: &mut Rec) {
    let f = &ctx.c.f;
    for nm in ["generators", "G1 scalar mul + serialisation", "G2 scalar mul + serialisation", "cross-engine deserialisation", "pairing", "bilinearity", "miller_loop + final_exponentiation", "multi_pairing", "frobenius maps", "tower arithmetic", "cross-engine deserialisation (readers with partial progress)", "mul_bigint by raw limbs"] {
        rec.declare_form(nm);
    }
    // generators, identities
    {
        rec.form("generators");
        rec.evals += 4;
        for c in [Compress::Yes, Compress::No] {
            cmp_bytes(rec, "G1 generator", &ser(&<Ours as Pairing>::G1::generator(), c), &ser(&<Refe as Pairing>::G1::generator(), c), json!({}));
            cmp_bytes(rec, "G2 generator", &ser(&<Ours as Pairing>::G2::generator(), c), &ser(&<Refe as Pairing>::G2::generator(), c), json!({}));
            cmp_bytes(rec, "G1 identity", &ser(&<Ours as Pairing>::G1Affine::zero(), c), &ser(&<Refe as Pairing>::G1Affine::zero(), c), json!({}));
            cmp_bytes(rec, "G2 identity", &ser(&<Ours as Pairing>::G2Affine::zero(), c), &ser(&<Refe as Pairing>::G2Affine::zero(), c), json!({}));
        }
        let e = guarded(|| Ours::pairing(<Ours as Pairing>::G1::generator(), <Ours as Pairing>::G2::generator()));
        match e {
            Ok(v) => {
                if v.is_zero() {
                    rec.violation(format!("{P}:pairing:degenerate"), "e(G1, G2) is the identity of the target group", json!({}));
                }
            }
            Err(pn) => rec.violation(format!("{P}:pairing:panic"), pn, json!({})),
        }
    }
    let zoo = field_zoo(f);
    // scalar multiplication + serialisation in both groups, cross-engine deserialisation
    par(rec, |w, n, rec| {
        let mut rng = rng_for(ctx.seed, P, w, 1);
        let mut scalars: Vec<(B, &'static str)> = Vec::new();
        for (i, z) in zoo.iter().enumerate() {
            if i % 9 == 0 || i < 12 || z.1 == "recoding-run" {
                scalars.push(z.clone());
            }
        }
        for _ in 0..ctx.scale(1500, 20_000) {
            scalars.push((rand_below(&mut rng, &f.p), "random"));
        }
        for (i, (k, class)) in scalars.iter().enumerate() {
            if i % n != w {
                continue;
            }
            rec.eval(&("scalar", k.to_bytes_le()), k == &b(0));
            let res = guarded(|| {
                let (ko, kr) = (our_scalar(k), ref_scalar(k));
                let p1o = (<Ours as Pairing>::G1::generator() * ko).into_affine();
                let p1r = (<Refe as Pairing>::G1::generator() * kr).into_affine();
                let p2o = (<Ours as Pairing>::G2::generator() * ko).into_affine();
                let p2r = (<Refe as Pairing>::G2::generator() * kr).into_affine();
                let mut out: Vec<(&'static str, Vec<u8>, Vec<u8>)> = Vec::new();
                for c in [Compress::Yes, Compress::No] {
                    out.push(("G1 scalar mul + serialisation", ser(&p1o, c), ser(&p1r, c)));
                    out.push(("G2 scalar mul + serialisation", ser(&p2o, c), ser(&p2r, c)));
                    // cross-engine: bytes of one engine through the other's validated deserialiser
                    let x1: Result<<Ours as Pairing>::G1Affine, _> = de(&ser(&p1r, c), c);
                    let x2: Result<<Ours as Pairing>::G2Affine, _> = de(&ser(&p2r, c), c);
                    let y1: Result<<Refe as Pairing>::G1Affine, _> = de(&ser(&p1o, c), c);
                    let y2: Result<<Refe as Pairing>::G2Affine, _> = de(&ser(&p2o, c), c);
                    out.push(("cross-engine deserialisation", x1.map(|p| ser(&p, c)).unwrap_or_else(|e| e.into_bytes()), ser(&p1r, c)));
                    out.push(("cross-engine deserialisation", x2.map(|p| ser(&p, c)).unwrap_or_else(|e| e.into_bytes()), ser(&p2r, c)));
                    out.push(("cross-engine deserialisation", y1.map(|p| ser(&p, c)).unwrap_or_else(|e| e.into_bytes()), ser(&p1o, c)));
                    out.push(("cross-engine deserialisation", y2.map(|p| ser(&p, c)).unwrap_or_else(|e| e.into_bytes()), ser(&p2o, c)));
                }
                // readers that deliver the encoding in pieces (chained halves, 1..7 bytes per read)
                for c in [Compress::Yes, Compress::No] {
                    use ark_std::io::Read;
                    let (b1, b2) = (ser(&p1r, c), ser(&p2r, c));
                    let cut1 = 1 + (i * 7) % (b1.len() - 1);
                    let cut2 = 1 + (i * 11) % (b2.len() - 1);
                    let z1 = <<Ours as Pairing>::G1Affine as CanonicalDeserialize>::deserialize_with_mode((&b1[..cut1]).chain(&b1[cut1..]), c, Validate::Yes);
                    let z2 = <<Ours as Pairing>::G2Affine as CanonicalDeserialize>::deserialize_with_mode((&b2[..cut2]).chain(&b2[cut2..]), c, Validate::Yes);
                    let z3 = <<Ours as Pairing>::G2Affine as CanonicalDeserialize>::deserialize_with_mode(crate::fld::Trickle { data: &b2, pos: 0, step: 1 + i % 7 }, c, Validate::Yes);
                    out.push(("cross-engine deserialisation (readers with partial progress)", z1.map(|p| ser(&p, c)).unwrap_or_else(|e| format!("{e:?}").into_bytes()), b1.clone()));
                    out.push(("cross-engine deserialisation (readers with partial progress)", z2.map(|p| ser(&p, c)).unwrap_or_else(|e| format!("{e:?}").into_bytes()), b2.clone()));
                    out.push(("cross-engine deserialisation (readers with partial progress)", z3.map(|p| ser(&p, c)).unwrap_or_else(|e| format!("{e:?}").into_bytes()), b2.clone()));
                }
                // scalar multiplication by raw little-endian limbs (not reduced, 1..6 limbs)
                {
                    let mut limbs = k.to_u64_digits();
                    limbs.push(0x7777_7777_7777_7777u64.wrapping_mul(1 + (i as u64 % 3)));
                    if i % 2 == 0 {
                        limbs.push(i as u64);
                    }
                    let g1o = <Ours as Pairing>::G1::generator().mul_bigint(&limbs).into_affine();
                    let g1r = <Refe as Pairing>::G1::generator().mul_bigint(&limbs).into_affine();
                    let g2o = p2o.mul_bigint(&limbs).into_affine();
                    let g2r = p2r.mul_bigint(&limbs).into_affine();
                    out.push(("mul_bigint by raw limbs", ser(&g1o, Compress::No), ser(&g1r, Compress::No)));
                    out.push(("mul_bigint by raw limbs", ser(&g2o, Compress::No), ser(&g2r, Compress::No)));
                }
                // subgroup membership / curve checks of the crate engine's points
                let ok = p1o.is_on_curve() && p1o.is_in_correct_subgroup_assuming_on_curve() && p2o.is_on_curve() && p2o.is_in_correct_subgroup_assuming_on_curve();
                (out, ok, p1o.mul_by_cofactor_inv().mul_by_cofactor() == p1o, p2o.mul_by_cofactor_inv().mul_by_cofactor() == p2o)
            });
            match res {
                Err(pn) => rec.violation(format!("{P}:scalar-mul:panic"), pn, json!({"k": hexs(k)})),
                Ok((out, ok, c1, c2)) => {
                    for (what, a, bb) in out {
                        rec.form(what);
                        cmp_bytes(rec, what, &a, &bb, json!({"k": hexs(k), "class": class}));
                    }
                    if !ok {
                        rec.violation(format!("{P}:subgroup-check"), "k*G is rejected by the crate engine's own curve/subgroup check", json!({"k": hexs(k)}));
                    }
                    if !(c1 && c2) {
                        rec.violation(format!("{P}:cofactor-inverse"), "mul_by_cofactor_inv followed by mul_by_cofactor is not the identity map on the subgroup", json!({"k": hexs(k), "g1": c1, "g2": c2}));
                    }
                }
            }
        }
    });
    // scalar multiplication by *integers* (not reduced): the scalar zoo of the group order q incl. q, q+-1,
    // q+-2, 2q.., prefixes c*q+delta (exceptional cases of dedicated addition formulas in hand-written
    // ladders), recoding runs, long integers; projective and affine entry points, small-order points
    rec.declare_form("mul_bigint by integer zoo");
    {
        let izoo = crate::zoo::scalar_int_zoo(&f.p);
        par(rec, |w, n, rec| {
            for (i, (k, class)) in izoo.iter().enumerate() {
                if i % n != w || (*class == "recoding-run" && i % 5 != 0) {
                    continue;
                }
                rec.form("mul_bigint by integer zoo");
                rec.eval(&("int-scalar", k.to_bytes_le()), k == &b(0));
                let limbs = k.to_u64_digits();
                let res = guarded(|| {
                    let mut out: Vec<(Vec<u8>, Vec<u8>)> = Vec::new();
                    let (g1o, g1r) = (<Ours as Pairing>::G1::generator(), <Refe as Pairing>::G1::generator());
                    let (g2o, g2r) = (<Ours as Pairing>::G2::generator(), <Refe as Pairing>::G2::generator());
                    out.push((ser(&g1o.mul_bigint(&limbs).into_affine(), Compress::No), ser(&g1r.mul_bigint(&limbs).into_affine(), Compress::No)));
                    out.push((ser(&g2o.mul_bigint(&limbs).into_affine(), Compress::No), ser(&g2r.mul_bigint(&limbs).into_affine(), Compress::No)));
                    out.push((ser(&g1o.into_affine().mul_bigint(&limbs).into_affine(), Compress::No), ser(&g1r.into_affine().mul_bigint(&limbs).into_affine(), Compress::No)));
                    out.push((ser(&g2o.into_affine().mul_bigint(&limbs).into_affine(), Compress::No), ser(&g2r.into_affine().mul_bigint(&limbs).into_affine(), Compress::No)));
                    // a point that is not the generator (7G), projective with Z != 1
                    let (p1o, p1r) = (g1o.double() + g1o.double().double() + g1o, g1r.double() + g1r.double().double() + g1r);
                    out.push((ser(&p1o.mul_bigint(&limbs).into_affine(), Compress::No), ser(&p1r.mul_bigint(&limbs).into_affine(), Compress::No)));
                    out
                });
                match res {
                    Err(pn) => rec.violation(format!("{P}:mul_bigint by integer zoo:panic"), pn, json!({"k": hexs(k), "class": class})),
                    Ok(out) => {
                        for (a, bb) in out {
                            cmp_bytes(rec, "mul_bigint by integer zoo", &a, &bb, json!({"k": hexs(k), "class": class}));
                        }
                    }
                }
            }
        });
    }
    // hostile point encodings: both engines must give the same verdict (and the same point)
    rec.declare_form("hostile encodings");
    rec.declare_form("cofactor clearing");
    for cl in ["coordinate + p", "coordinate = p", "flag bits", "bit flip", "x+1 (off curve / other point)", "random bytes", "truncated", "on curve outside subgroup", "related to a validated point", "zero-component point", "subgroup point + small-order point", "unvalidated mode"] {
        rec.declare_class(&format!("enc:{cl}"));
    }
    par(rec, |w, n, rec| {
        let mut rng = rng_for(ctx.seed, P, w, 7);
        let pmod = &ctx.fp.p;
        let reps = ctx.scale(600, 8000);
        for rep in 0..reps {
            if rep % n != w {
                continue;
            }
            let k = if rep < 4 { b(rep as u64) } else { rand_below(&mut rng, &f.p) };
            let kr = ref_scalar(&k);
            let p1 = (<Refe as Pairing>::G1::generator() * kr).into_affine();
            let p2 = (<Refe as Pairing>::G2::generator() * kr).into_affine();
            let mut cases: Vec<(&'static str, bool, Compress, Vec<u8>)> = Vec::new(); // (class, is_g2, mode, bytes)
            for (is_g2, c, bytes) in [(false, Compress::Yes, ser(&p1, Compress::Yes)), (false, Compress::No, ser(&p1, Compress::No)), (true, Compress::Yes, ser(&p2, Compress::Yes)), (true, Compress::No, ser(&p2, Compress::No))] {
                let slots = bytes.len() / 48;
                for slot in 0..slots {
                    // value in the slot (flag bits live in the top bits of the last byte of the encoding)
                    let raw = crate::model::from_le(&bytes[48 * slot..48 * slot + 48]);
                    let flags = if slot == slots - 1 { &raw >> 382u32 } else { b(0) };
                    let val = &raw - (&flags << 382u32);
                    for (class, nv) in [("coordinate + p", &val + pmod), ("coordinate = p", pmod.clone()), ("x+1 (off curve / other point)", (&val + b(1)) % pmod)] {
                        if nv.bits() > 382 {
                            continue;
                        }
                        let mut m = bytes.clone();
                        m[48 * slot..48 * slot + 48].copy_from_slice(&crate::model::to_le(&(&nv + (&flags << 382u32)), 48));
                        cases.push((class, is_g2, c, m));
                    }
                }
                for bit in [7usize, 6, 5] {
                    let mut m = bytes.clone();
                    let last = m.len() - 1;
                    m[last] ^= 1 << bit;
                    cases.push(("flag bits", is_g2, c, m));
                }
                let mut m = bytes.clone();
                let pos = rand_range(&mut rng, m.len() * 8);
                m[pos / 8] ^= 1 << (pos % 8);
                cases.push(("bit flip", is_g2, c, m));
                cases.push(("random bytes", is_g2, c, crate::zoo::rand_bytes(&mut rng, bytes.len())));
                cases.push(("truncated", is_g2, c, bytes[..bytes.len() - 1 - rand_range(&mut rng, 5)].to_vec()));
            }
            // points *related to a point the crate engine has just validated*: same x.c0 (resp. x.c1) of a G2
            // point, same low / high half of the x of a G1 point, but on the curve outside the subgroup. The
            // honest points are deserialised (validated) by the crate engine first, the rogue ones follow.
            if rep % 4 == 0 {
                use ark_ec::short_weierstrass::Affine as SW;
                use ark_ff::PrimeField;
                type RefG1Cfg = <<Refe as Pairing>::G1Affine as AffineRepr>::Config;
                type RefG2Cfg = <<Refe as Pairing>::G2Affine as AffineRepr>::Config;
                type RFp = <Refe as Pairing>::BaseField;
                type RFp2 = <<Refe as Pairing>::G2Affine as AffineRepr>::BaseField;
                for c in [Compress::Yes, Compress::No] {
                    let _: Result<<Ours as Pairing>::G1Affine, _> = de(&ser(&p1, c), c);
                    let _: Result<<Ours as Pairing>::G2Affine, _> = de(&ser(&p2, c), c);
                }
                if let (Some((x1, _)), Some((x2, _))) = (p1.xy(), p2.xy()) {
                    let (x1, x2): (RFp, RFp2) = (*x1, *x2);
                    let mut found = 0;
                    for attempt in 0..64u64 {
                        let fresh = RFp::rand(&mut rng);
                        let cand = match attempt % 2 { 0 => RFp2::new(x2.c0, fresh), _ => RFp2::new(fresh, x2.c1) };
                        if let Some(pt) = SW::<RefG2Cfg>::get_point_from_x_unchecked(cand, attempt % 4 < 2) {
                            cases.push(("related to a validated point", true, Compress::Yes, ser(&pt, Compress::Yes)));
                            cases.push(("related to a validated point", true, Compress::No, ser(&pt, Compress::No)));
                            found += 1;
                            if found >= 4 { break; }
                        }
                    }
                    let xb = crate::model::from_le(&ser(&x1, Compress::No));
                    let mut found = 0;
                    for attempt in 0..64u64 {
                        let fresh = crate::model::from_le(&ser(&RFp::rand(&mut rng), Compress::No));
                        let lowmask = (b(1) << 192) - b(1);
                        let v = if attempt % 2 == 0 { (&xb & &lowmask) + ((&fresh >> 192u32) << 192u32) } else { (&fresh & &lowmask) + ((&xb >> 192u32) << 192u32) } % pmod;
                        let cand = RFp::from_le_bytes_mod_order(&crate::model::to_le(&v, 48));
                        if let Some(pt) = SW::<RefG1Cfg>::get_point_from_x_unchecked(cand, attempt % 4 < 2) {
                            cases.push(("related to a validated point", false, Compress::Yes, ser(&pt, Compress::Yes)));
                            cases.push(("related to a validated point", false, Compress::No, ser(&pt, Compress::No)));
                            found += 1;
                            if found >= 4 { break; }
                        }
                    }
                }
            }
            // twist-curve points with a vanishing coordinate component (y.c1 = 0, y.c0 = 0, x.c1 = 0, x.c0 = 0):
            // sign conventions and lexicographic comparisons in Fp2 are decided by the second component only
            // when the first one ties. They are solved for in the reference field: with x = u + v i,
            // Im(x^3 + b) = 0 fixes u^2 for a chosen v, the real part then has to be a square (times beta).
            if rep % 2 == 0 {
                use ark_ec::short_weierstrass::{Affine as SW, SWCurveConfig};
                use ark_ff::{Field, Fp2Config};
                type RefG2Cfg = <<Refe as Pairing>::G2Affine as AffineRepr>::Config;
                type RFp = <Refe as Pairing>::BaseField;
                type RFp2 = <<Refe as Pairing>::G2Affine as AffineRepr>::BaseField;
                let beta: RFp = <ark_bls12_377::Fq2Config as Fp2Config>::NONRESIDUE;
                let bcoef: RFp2 = <RefG2Cfg as SWCurveConfig>::COEFF_B;
                let three = RFp::from(3u64);
                let mut made = 0;
                for _attempt in 0..64 {
                    if made >= 2 {
                        break;
                    }
                    let v = RFp::rand(&mut rng);
                    if v.is_zero() {
                        continue;
                    }
                    // 3 u^2 v + beta v^3 + b1 = 0
                    let u2 = -(beta * v * v * v + bcoef.c1) * (three * v).inverse().unwrap();
                    let Some(u) = u2.sqrt() else { continue };
                    let real = u * u * u + three * beta * u * v * v + bcoef.c0;
                    let x = RFp2::new(u, v);
                    if let Some(c0) = real.sqrt() {
                        for y0 in [c0, -c0] {
                            let pt = SW::<RefG2Cfg>::new_unchecked(x, RFp2::new(y0, RFp::from(0u64)));
                            if pt.is_on_curve() {
                                cases.push(("zero-component point", true, Compress::Yes, ser(&pt, Compress::Yes)));
                                cases.push(("zero-component point", true, Compress::No, ser(&pt, Compress::No)));
                                made += 1;
                            }
                        }
                    }
                    if let Some(c1) = (real * beta.inverse().unwrap()).sqrt() {
                        for y1 in [c1, -c1] {
                            let pt = SW::<RefG2Cfg>::new_unchecked(x, RFp2::new(RFp::from(0u64), y1));
                            if pt.is_on_curve() {
                                cases.push(("zero-component point", true, Compress::Yes, ser(&pt, Compress::Yes)));
                                cases.push(("zero-component point", true, Compress::No, ser(&pt, Compress::No)));
                                made += 1;
                            }
                        }
                    }
                }
                for which in 0..2 {
                    for _attempt in 0..32 {
                        let t = RFp::rand(&mut rng);
                        let x = if which == 0 { RFp2::new(t, RFp::from(0u64)) } else { RFp2::new(RFp::from(0u64), t) };
                        if let Some(pt) = SW::<RefG2Cfg>::get_point_from_x_unchecked(x, rep % 4 == 0) {
                            cases.push(("zero-component point", true, Compress::Yes, ser(&pt, Compress::Yes)));
                            cases.push(("zero-component point", true, Compress::No, ser(&pt, Compress::No)));
                            break;
                        }
                    }
                }
            }
            // cosets of the prime-order subgroup by points of small order: P0 + T with P0 = k*G and T of order
            // l for every small prime l dividing the cofactor (T = [#E / l] R for a random curve point R, plus the
            // obvious (-1, 0) and (0, +-1)); and wide scalars (5..8 limbs) applied to such non-members
            if rep % 3 == 0 {
                use ark_ec::short_weierstrass::{Affine as SW, SWCurveConfig};
                use ark_ec::CurveConfig;
                type RefG1Cfg = <<Refe as Pairing>::G1Affine as AffineRepr>::Config;
                type RFp = <Refe as Pairing>::BaseField;
                let h = crate::model::from_limbs64(<RefG1Cfg as CurveConfig>::COFACTOR);
                let order = &h * &f.p;
                let mut small: Vec<u64> = Vec::new();
                for l in [2u64, 3, 5, 7, 11, 13, 17, 19, 23, 29, 31, 37, 41, 43, 47, 499] {
                    if (&h % b(l)) == b(0) {
                        small.push(l);
                    }
                }
                let mut torsion: Vec<SW<RefG1Cfg>> = vec![SW::<RefG1Cfg>::new_unchecked(-RFp::from(1u64), RFp::from(0u64)), SW::<RefG1Cfg>::new_unchecked(RFp::from(0u64), RFp::from(1u64))];
                for l in &small {
                    for _ in 0..8 {
                        let x = RFp::rand(&mut rng);
                        if let Some(r) = SW::<RefG1Cfg>::get_point_from_x_unchecked(x, true) {
                            let t = r.mul_bigint((&order / b(*l)).to_u64_digits()).into_affine();
                            if !t.is_zero() {
                                torsion.push(t);
                                break;
                            }
                        }
                    }
                }
                let t = torsion[(rep / 3) % torsion.len()];
                let shifted = (p1 + t).into_affine();
                if !shifted.is_zero() && shifted.is_on_curve() {
                    cases.push(("subgroup point + small-order point", false, Compress::Yes, ser(&shifted, Compress::Yes)));
                    cases.push(("subgroup point + small-order point", false, Compress::No, ser(&shifted, Compress::No)));
                    // wide scalars on the non-member, both engines, projective and affine entry points
                    let wide: Vec<Vec<u64>> = vec![vec![0, 0, 0, 0, 1], vec![rng.next_u64(), rng.next_u64(), rng.next_u64(), rng.next_u64(), rng.next_u64(), rng.next_u64()], <RefG1Cfg as CurveConfig>::COFACTOR.to_vec(), order.to_u64_digits()];
                    let res = guarded(|| -> Result<Vec<(Vec<u8>, Vec<u8>)>, String> {
                        let ours: <Ours as Pairing>::G1Affine = <<Ours as Pairing>::G1Affine as CanonicalDeserialize>::deserialize_with_mode(&ser(&shifted, Compress::No)[..], Compress::No, Validate::No).map_err(|e| format!("{e:?}"))?;
                        let mut out = vec![(vec![ours.is_in_correct_subgroup_assuming_on_curve() as u8], vec![shifted.is_in_correct_subgroup_assuming_on_curve() as u8])];
                        for wsc in &wide {
                            out.push((ser(&ours.into_group().mul_bigint(wsc).into_affine(), Compress::No), ser(&shifted.into_group().mul_bigint(wsc).into_affine(), Compress::No)));
                            out.push((ser(&ours.mul_bigint(wsc).into_affine(), Compress::No), ser(&shifted.mul_bigint(wsc).into_affine(), Compress::No)));
                        }
                        Ok(out)
                    });
                    rec.form("hostile encodings");
                    rec.class("enc:subgroup point + small-order point");
                    match res {
                        Err(pn) => rec.violation(format!("{P}:small-order-coset:panic"), pn, json!({})),
                        Ok(Err(e)) => rec.violation(format!("{P}:small-order-coset:deserialise"), e, json!({})),
                        Ok(Ok(out)) => {
                            for (k, (a, bb)) in out.iter().enumerate() {
                                cmp_bytes(rec, if k == 0 { "subgroup check of a small-order coset member" } else { "wide scalar on a non-member" }, a, bb, json!({"bytes": hx(&ser(&shifted, Compress::No)), "torsion_order_candidates": small}));
                            }
                        }
                    }
                }
            }
            // a G1 point on the curve but (almost surely) outside the prime-order subgroup
            {
                use ark_ec::short_weierstrass::Affine as SW;
                type RefG1Cfg = <<Refe as Pairing>::G1Affine as AffineRepr>::Config;
                loop {
                    let x = <Refe as Pairing>::BaseField::rand(&mut rng);
                    if let Some(pt) = SW::<RefG1Cfg>::get_point_from_x_unchecked(x, rep % 2 == 0) {
                        cases.push(("on curve outside subgroup", false, Compress::Yes, ser(&pt, Compress::Yes)));
                        cases.push(("on curve outside subgroup", false, Compress::No, ser(&pt, Compress::No)));
                        break;
                    }
                }
            }
            // cofactor clearing of points outside the subgroup must agree byte for byte
            {
                use ark_ec::short_weierstrass::Affine as SW;
                type RefG1Cfg = <<Refe as Pairing>::G1Affine as AffineRepr>::Config;
                type RefG2Cfg = <<Refe as Pairing>::G2Affine as AffineRepr>::Config;
                rec.form("cofactor clearing");
                let x1 = <Refe as Pairing>::BaseField::rand(&mut rng);
                let x2 = <<Refe as Pairing>::G2Affine as AffineRepr>::BaseField::rand(&mut rng);
                let res = guarded(|| -> Result<Vec<(&'static str, Vec<u8>, Vec<u8>)>, String> {
                    let mut out = Vec::new();
                    if let Some(pt) = SW::<RefG1Cfg>::get_point_from_x_unchecked(x1, true) {
                        let ours: <Ours as Pairing>::G1Affine = <<Ours as Pairing>::G1Affine as CanonicalDeserialize>::deserialize_with_mode(&ser(&pt, Compress::No)[..], Compress::No, Validate::No).map_err(|e| format!("{e:?}"))?;
                        // the reference engine clears with an *effective* cofactor (x - 1), the crate's engine with
                        // the full cofactor: both are legitimate and differ by a scalar, so only membership of the
                        // result in the prime-order subgroup (judged by the reference engine) is demanded
                        let cleared: <Refe as Pairing>::G1Affine = de(&ser(&ours.clear_cofactor(), Compress::No), Compress::No)?;
                        out.push(("G1 clear_cofactor lands in the subgroup", vec![1], vec![(cleared.is_on_curve() && cleared.is_in_correct_subgroup_assuming_on_curve()) as u8]));
                        out.push(("G1 mul_by_cofactor", ser(&ours.mul_by_cofactor(), Compress::No), ser(&pt.mul_by_cofactor(), Compress::No)));
                        out.push(("G1 subgroup check", vec![ours.is_in_correct_subgroup_assuming_on_curve() as u8], vec![pt.is_in_correct_subgroup_assuming_on_curve() as u8]));
                    }
                    if let Some(pt) = SW::<RefG2Cfg>::get_point_from_x_unchecked(x2, false) {
                        let ours: <Ours as Pairing>::G2Affine = <<Ours as Pairing>::G2Affine as CanonicalDeserialize>::deserialize_with_mode(&ser(&pt, Compress::No)[..], Compress::No, Validate::No).map_err(|e| format!("{e:?}"))?;
                        let cleared: <Refe as Pairing>::G2Affine = de(&ser(&ours.clear_cofactor(), Compress::No), Compress::No)?;
                        out.push(("G2 clear_cofactor lands in the subgroup", vec![1], vec![(cleared.is_on_curve() && cleared.is_in_correct_subgroup_assuming_on_curve()) as u8]));
                        out.push(("G2 mul_by_cofactor", ser(&ours.mul_by_cofactor(), Compress::No), ser(&pt.mul_by_cofactor(), Compress::No)));
                        out.push(("G2 subgroup check", vec![ours.is_in_correct_subgroup_assuming_on_curve() as u8], vec![pt.is_in_correct_subgroup_assuming_on_curve() as u8]));
                    }
                    Ok(out)
                });
                rec.eval(&("cofactor", ser(&x1, Compress::No)), false);
                match res {
                    Err(pn) => rec.violation(format!("{P}:cofactor-clearing:panic"), pn, json!({})),
                    Ok(Err(e)) => rec.violation(format!("{P}:cofactor-clearing:deserialise"), e, json!({})),
                    Ok(Ok(out)) => {
                        for (what, a, bb) in out {
                            cmp_bytes(rec, what, &a, &bb, json!({"x": hx(&ser(&x1, Compress::No))}));
                        }
                    }
                }
            }
            // unvalidated modes: bytes of honest points and of (coordinate + p) variants through
            // Validate::No must still get the same verdict / value from both engines
            let unchecked_cases: Vec<(bool, Compress, Vec<u8>)> = cases.iter().filter(|c| c.0 == "coordinate + p" || c.0 == "bit flip" || c.0 == "flag bits" || c.0 == "zero-component point" || c.0 == "on curve outside subgroup" || c.0 == "subgroup point + small-order point").map(|c| (c.1, c.2, c.3.clone())).collect();
            for (is_g2, c, bytes) in unchecked_cases {
                rec.form("hostile encodings");
                rec.class("enc:unvalidated mode");
                rec.eval(&("unchecked", bytes.clone(), is_g2), false);
                let b2 = bytes.clone();
                let res = guarded(|| {
                    if is_g2 {
                        let o = <<Ours as Pairing>::G2Affine as CanonicalDeserialize>::deserialize_with_mode(&b2[..], c, Validate::No).map(|p| obs(&p)).ok();
                        let r = <<Refe as Pairing>::G2Affine as CanonicalDeserialize>::deserialize_with_mode(&b2[..], c, Validate::No).map(|p| obs(&p)).ok();
                        (o, r)
                    } else {
                        let o = <<Ours as Pairing>::G1Affine as CanonicalDeserialize>::deserialize_with_mode(&b2[..], c, Validate::No).map(|p| obs(&p)).ok();
                        let r = <<Refe as Pairing>::G1Affine as CanonicalDeserialize>::deserialize_with_mode(&b2[..], c, Validate::No).map(|p| obs(&p)).ok();
                        (o, r)
                    }
                });
                match res {
                    Err(pn) => rec.violation(format!("{P}:hostile-encoding:panic"), format!("unvalidated deserialisation panicked: {pn}"), json!({"bytes": hx(&bytes)})),
                    Ok((o, r)) => {
                        if o != r {
                            rec.violation(format!("{P}:hostile-encoding:unvalidated-mode-differs"), format!("Validate::No deserialisation of a {} encoding: crate engine {} / reference engine {}", if is_g2 { "G2" } else { "G1" }, if o.is_some() { "accepts" } else { "rejects" }, if r.is_some() { "accepts" } else { "rejects" }), json!({"bytes": hx(&bytes)}));
                        }
                    }
                }
            }
            for (class, is_g2, c, bytes) in cases {
                rec.form("hostile encodings");
                rec.class(&format!("enc:{class}"));
                rec.eval(&("hostile", bytes.clone(), is_g2), false);
                let b2 = bytes.clone();
                let res = guarded(|| {
                    if is_g2 {
                        let o: Result<<Ours as Pairing>::G2Affine, _> = de(&b2, c);
                        let r: Result<<Refe as Pairing>::G2Affine, _> = de(&b2, c);
                        (o.map(|p| obs(&p)).ok(), r.map(|p| obs(&p)).ok())
                    } else {
                        let o: Result<<Ours as Pairing>::G1Affine, _> = de(&b2, c);
                        let r: Result<<Refe as Pairing>::G1Affine, _> = de(&b2, c);
                        (o.map(|p| obs(&p)).ok(), r.map(|p| obs(&p)).ok())
                    }
                });
                match res {
                    Err(pn) => rec.violation(format!("{P}:hostile-encoding:panic"), format!("deserialising a {class} encoding panicked: {pn}"), json!({"bytes": hx(&bytes)})),
                    Ok((o, r)) => {
                        if o.is_some() {
                            rec.count("hostile encodings accepted by both", 1);
                        }
                        if o != r {
                            let kind = match (&o, &r) {
                                (Some(_), None) => "crate-accepts-reference-rejects",
                                (None, Some(_)) => "crate-rejects-reference-accepts",
                                _ => "different-point",
                            };
                            rec.violation(format!("{P}:hostile-encoding:{kind}:{class}"), format!("{} encoding ({class}, {}): crate engine {} / reference engine {}", if is_g2 { "G2" } else { "G1" }, if matches!(c, Compress::Yes) { "compressed" } else { "uncompressed" }, if o.is_some() { "accepts" } else { "rejects" }, if r.is_some() { "accepts" } else { "rejects" }), json!({"bytes": hx(&bytes), "group": if is_g2 { "G2" } else { "G1" }}));
                        }
                    }
                }
            }
        }
    });
    // base-field ordering and sign conventions (they decide the flag bit of compressed points):
    // cmp(y, -y) for y at every distance from p/2, and pairs sharing their high limbs
    rec.declare_form("Fp ordering vs reference");
    {
        let pmod = ctx.fp.p.clone();
        let half = (&pmod - b(1)) >> 1;
        let mut r0 = rng_for(ctx.seed, P, 996, 0);
        let mut ys: Vec<B> = crate::zoo::threshold_sweep(&half, 376, &mut r0, 1).into_iter().filter(|v| v < &pmod).collect();
        for _ in 0..ctx.scale(2000, 50_000) {
            ys.push(rand_below(&mut r0, &pmod));
        }
        par(rec, |w, n, rec| {
            let mut rng = rng_for(ctx.seed, P, w, 9);
            for (i, y) in ys.iter().enumerate() {
                if i % n != w {
                    continue;
                }
                let other = match i % 3 {
                    0 => ctx.fp.neg(y),
                    1 => {
                        // same high limbs, low limbs re-randomised
                        let k = 1 + rand_range(&mut rng, 5);
                        let low = (b(1) << (64 * k)) - b(1);
                        ((y - (y & &low)) + rand_below(&mut rng, &(b(1) << (64 * k)))) % &pmod
                    }
                    _ => rand_below(&mut rng, &pmod),
                };
                rec.form("Fp ordering vs reference");
                rec.eval(&("fp-ord", y.to_bytes_le(), other.to_bytes_le()), false);
                let (oy, oo) = (fp(y), fp(&other));
                let ry = <Refe as Pairing>::BaseField::from_le_bytes_mod_order(&crate::model::to_le(y, 48));
                let ro = <Refe as Pairing>::BaseField::from_le_bytes_mod_order(&crate::model::to_le(&other, 48));
                match guarded(|| (oy.cmp(&oo), ry.cmp(&ro), oy > -oy, ry > -ry)) {
                    Err(pn) => rec.violation(format!("{P}:Fp-ordering:panic"), pn, json!({})),
                    Ok((a, bb, c1, c2)) => {
                        if a != bb || c1 != c2 || a != y.cmp(&other) {
                            rec.violation(format!("{P}:Fp-ordering"), format!("cmp({}, {}) = {a:?} in the crate's Fp, {bb:?} in the reference field", hexs(y), hexs(&other)), json!({"y": hexs(y), "other": hexs(&other)}));
                        }
                    }
                }
            }
        });
    }
    // multi-pairings over lists of 1..5 pairs with identities planted on the G1 side, the G2 side or both,
    // at every position; the whole list against the reference engine byte for byte (miller loop and
    // pairing), and against the product of the individual pairings
    rec.declare_form("multi_pairing lists with identities");
    par(rec, |w, n, rec| {
        let mut rng = rng_for(ctx.seed, P, w, 12);
        let reps = ctx.scale(160, 2000);
        for rep in 0..reps {
            if rep % n != w {
                continue;
            }
            let len = 1 + rep % 5;
            let ks: Vec<(B, B)> = (0..len).map(|_| (rand_below(&mut rng, &f.p), rand_below(&mut rng, &f.p))).collect();
            // which slots get an identity: 0 = none, 1 = G1 side, 2 = G2 side, 3 = both
            let plan: Vec<u8> = (0..len).map(|i| if (rep / 5 + i) % 3 == 0 { ((rep / 15 + i) % 4) as u8 } else { 0 }).collect();
            rec.form("multi_pairing lists with identities");
            rec.eval(&("multi-list", ks.iter().map(|x| x.0.to_bytes_le()).collect::<Vec<_>>(), plan.clone()), false);
            let res = guarded(|| {
                let mut g1o = Vec::new(); let mut g2o = Vec::new(); let mut g1r = Vec::new(); let mut g2r = Vec::new();
                for (i, (a, bb)) in ks.iter().enumerate() {
                    let (ao, bo, ar, br) = (our_scalar(a), our_scalar(bb), ref_scalar(a), ref_scalar(bb));
                    let id1 = plan[i] & 1 == 1;
                    let id2 = plan[i] & 2 == 2;
                    g1o.push(if id1 { <Ours as Pairing>::G1Affine::zero() } else { (<Ours as Pairing>::G1::generator() * ao).into_affine() });
                    g1r.push(if id1 { <Refe as Pairing>::G1Affine::zero() } else { (<Refe as Pairing>::G1::generator() * ar).into_affine() });
                    g2o.push(if id2 { <Ours as Pairing>::G2Affine::zero() } else { (<Ours as Pairing>::G2::generator() * bo).into_affine() });
                    g2r.push(if id2 { <Refe as Pairing>::G2Affine::zero() } else { (<Refe as Pairing>::G2::generator() * br).into_affine() });
                }
                let mo = Ours::multi_pairing(g1o.clone(), g2o.clone());
                let mr = Refe::multi_pairing(g1r.clone(), g2r.clone());
                let mlo = Ours::multi_miller_loop(g1o.clone(), g2o.clone());
                let mlr = Refe::multi_miller_loop(g1r, g2r);
                let mut prod = Ours::pairing(g1o[0], g2o[0]);
                for i in 1..g1o.len() {
                    prod = prod + Ours::pairing(g1o[i], g2o[i]);
                }
                (ser(&mo, Compress::Yes), ser(&mr, Compress::Yes), ser(&mlo.0, Compress::No), ser(&mlr.0, Compress::No), prod == mo)
            });
            let d = json!({"len": len, "identity_plan": plan});
            match res {
                Err(pn) => rec.violation(format!("{P}:multi_pairing lists:panic"), pn, d),
                Ok((mo, mr, mlo, mlr, prod_ok)) => {
                    cmp_bytes(rec, "multi_pairing lists with identities", &mo, &mr, d.clone());
                    cmp_bytes(rec, "multi_miller_loop lists with identities", &mlo, &mlr, d.clone());
                    if !prod_ok {
                        rec.violation(format!("{P}:multi_pairing lists:product"), "multi_pairing differs from the product of the individual pairings", d);
                    }
                }
            }
        }
    });
    // pairings
    par(rec, |w, n, rec| {
        let mut rng = rng_for(ctx.seed, P, w, 2);
        let reps = ctx.scale(1200, 12_000);
        for rep in 0..reps {
            if rep % n != w {
                continue;
            }
            let a = match rep % 8 {
                0 => zoo[rand_range(&mut rng, zoo.len())].0.clone(),
                1 => b((rep / 8) as u64 % 3),
                _ => rand_below(&mut rng, &f.p),
            };
            let bb = if rep % 5 == 0 { f.neg(&a) } else { rand_below(&mut rng, &f.p) };
            rec.eval(&("pairing", a.to_bytes_le(), bb.to_bytes_le()), a == b(0) || bb == b(0));
            let res = guarded(|| {
                let (ao, bo, ar, br) = (our_scalar(&a), our_scalar(&bb), ref_scalar(&a), ref_scalar(&bb));
                let p_o = (<Ours as Pairing>::G1::generator() * ao).into_affine();
                let q_o = (<Ours as Pairing>::G2::generator() * bo).into_affine();
                let p_r = (<Refe as Pairing>::G1::generator() * ar).into_affine();
                let q_r = (<Refe as Pairing>::G2::generator() * br).into_affine();
                let e_o = Ours::pairing(p_o, q_o);
                let e_r = Refe::pairing(p_r, q_r);
                let base_o = Ours::pairing(<Ours as Pairing>::G1::generator(), <Ours as Pairing>::G2::generator());
                let bil = e_o == base_o * (ao * bo);
                let ml_o = Ours::miller_loop(<Ours as Pairing>::G1Prepared::from(p_o), <Ours as Pairing>::G2Prepared::from(q_o));
                let ml_r = Refe::miller_loop(<Refe as Pairing>::G1Prepared::from(p_r), <Refe as Pairing>::G2Prepared::from(q_r));
                let fe_o = Ours::final_exponentiation(ml_o).map(|x| ser(&x, Compress::Yes));
                let multi_o = Ours::multi_pairing([p_o, <Ours as Pairing>::G1Affine::generator()], [q_o, (-<Ours as Pairing>::G2::generator() * (ao * bo)).into_affine()]);
                (ser(&e_o, Compress::Yes), ser(&e_r, Compress::Yes), bil, ser(&ml_o.0, Compress::No), ser(&ml_r.0, Compress::No), fe_o, multi_o.is_zero())
            });
            match res {
                Err(pn) => rec.violation(format!("{P}:pairing:panic"), pn, json!({"a": hexs(&a), "b": hexs(&bb)})),
                Ok((eo, er, bil, mlo, mlr, feo, multi_zero)) => {
                    let d = json!({"a": hexs(&a), "b": hexs(&bb)});
                    rec.form("pairing");
                    cmp_bytes(rec, "pairing", &eo, &er, d.clone());
                    rec.form("bilinearity");
                    if !bil {
                        rec.violation(format!("{P}:bilinearity"), "e(aP, bQ) != e(P, Q)^(ab)", d.clone());
                    }
                    rec.form("miller_loop + final_exponentiation");
                    cmp_bytes(rec, "miller_loop", &mlo, &mlr, d.clone());
                    if feo.as_deref() != Some(&eo[..]) {
                        rec.violation(format!("{P}:final_exponentiation"), "final_exponentiation(miller_loop) != pairing", d.clone());
                    }
                    rec.form("multi_pairing");
                    if !multi_zero {
                        rec.violation(format!("{P}:multi_pairing"), "e(aP,bQ) * e(G1, -ab*G2) != 1", d.clone());
                    }
                    if rep < 2 {
                        rec.sample(json!({"a": hexs(&a), "b": hexs(&bb), "pairing_output_first_bytes": hx(&eo[..32])}));
                    }
                }
            }
        }
    });
    // extension tower: Frobenius maps and arithmetic on random Fp12 elements vs the reference tower
    par(rec, |w, n, rec| {
        let mut rng = rng_for(ctx.seed, P, w, 3);
        let reps = ctx.scale(1000, 8000);
        for rep in 0..reps {
            if rep % n != w {
                continue;
            }
            type T12o = <Ours as Pairing>::TargetField;
            type T12r = <Refe as Pairing>::TargetField;
            let x_r = T12r::rand(&mut rng);
            let y_r = T12r::rand(&mut rng);
            let xb = ser(&x_r, Compress::No);
            let yb = ser(&y_r, Compress::No);
            rec.eval(&("tower", xb.clone()), false);
            let res = guarded(|| -> Result<Vec<(String, Vec<u8>, Vec<u8>)>, String> {
                let x_o: T12o = de(&xb, Compress::No)?;
                let y_o: T12o = de(&yb, Compress::No)?;
                let mut out = Vec::new();
                for k in 0..12usize {
                    let mut a = x_o;
                    a.frobenius_map_in_place(k);
                    let mut bb = x_r;
                    bb.frobenius_map_in_place(k);
                    out.push((format!("Fp12 frobenius_map({k})"), ser(&a, Compress::No), ser(&bb, Compress::No)));
                    // the Fp6 / Fp2 components
                    let (mut a6, mut b6) = (x_o.c1, x_r.c1);
                    a6.frobenius_map_in_place(k);
                    b6.frobenius_map_in_place(k);
                    out.push((format!("Fp6 frobenius_map({k})"), ser(&a6, Compress::No), ser(&b6, Compress::No)));
                    let (mut a2, mut b2) = (x_o.c0.c2, x_r.c0.c2);
                    a2.frobenius_map_in_place(k);
                    b2.frobenius_map_in_place(k);
                    out.push((format!("Fp2 frobenius_map({k})"), ser(&a2, Compress::No), ser(&b2, Compress::No)));
                }
                out.push(("Fp12 mul".into(), ser(&(x_o * y_o), Compress::No), ser(&(x_r * y_r), Compress::No)));
                out.push(("Fp12 square".into(), ser(&x_o.square(), Compress::No), ser(&x_r.square(), Compress::No)));
                out.push(("Fp12 inverse".into(), ser(&x_o.inverse().unwrap(), Compress::No), ser(&x_r.inverse().unwrap(), Compress::No)));
                out.push(("Fp12 cyclotomic-ish pow".into(), ser(&x_o.pow([0x8508c00000000001u64]), Compress::No), ser(&x_r.pow([0x8508c00000000001u64]), Compress::No)));
                out.push(("Fp2 sqrt".into(), ser(&x_o.c0.c0.square().sqrt().map(|r| r.square()), Compress::No), ser(&x_r.c0.c0.square().sqrt().map(|r| r.square()), Compress::No)));
                out.push(("Fp2 legendre".into(), vec![x_o.c0.c1.legendre().is_qr() as u8], vec![x_r.c0.c1.legendre().is_qr() as u8]));
                let _ = T12o::one();
                Ok(out)
            });
            match res {
                Err(pn) => rec.violation(format!("{P}:tower:panic"), pn, json!({"x": hx(&xb[..48])})),
                Ok(Err(e)) => rec.violation(format!("{P}:tower:deserialise"), e, json!({"x": hx(&xb[..48])})),
                Ok(Ok(out)) => {
                    for (what, a, bb) in out {
                        rec.form(if what.contains("frobenius") { "frobenius maps" } else { "tower arithmetic" });
                        let key = what.split('(').next().unwrap_or("").to_string();
                        cmp_bytes(rec, &format!("{}{}", key, if what.contains('(') { format!("({}", what.split('(').nth(1).unwrap()) } else { String::new() }), &a, &bb, json!({"x": hx(&xb[..48])}));
                    }
                }
            }
        }
    });
    let _: Option<PairingOutput<Ours>> = None;
    rec.check_coverage();
}
