//! Monitor infrastructure: per-worker recorders (merged at the end, so the monitor never
//! becomes a race), violation records with stable signatures, bounded event ring.
#![allow(dead_code)]
use std::collections::{BTreeMap, HashSet, VecDeque};
use std::hash::{Hash, Hasher};
use std::panic::{catch_unwind, AssertUnwindSafe};

use rand_chacha::ChaCha20Rng;
use rand_core::SeedableRng;
use serde_json::{json, Value};

pub const MAX_VIOLATIONS_KEPT: usize = 40;
pub const MAX_SAMPLES: usize = 12;
pub const RING: usize = 24;

#[derive(Clone, Debug)]
pub struct Violation {
    /// stable signature: what check failed, on which form / call site / input class.
    pub sig: String,
    pub what: String,
    pub detail: Value,
    pub events: Vec<String>,
}

pub struct Rec {
    pub evals: u64,
    pub distinct: HashSet<u64>,
    pub forms: BTreeMap<String, u64>,
    pub classes: BTreeMap<String, u64>,
    pub counters: BTreeMap<String, u64>,
    pub sets: BTreeMap<String, HashSet<u64>>,
    pub samples: Vec<Value>,
    pub violations: Vec<Violation>,
    pub violation_count: u64,
    pub sigs_seen: BTreeMap<String, u64>,
    pub inconclusive: Vec<String>,
    pub ring: VecDeque<String>,
    pub sample_every: u64,
}

impl Default for Rec {
    fn default() -> Self {
        Self::new()
    }
}

pub fn h64<T: Hash>(t: &T) -> u64 {
    let mut h = std::collections::hash_map::DefaultHasher::new();
    t.hash(&mut h);
    h.finish()
}

impl Rec {
    pub fn new() -> Self {
        Rec {
            evals: 0,
            distinct: HashSet::new(),
            forms: BTreeMap::new(),
            classes: BTreeMap::new(),
            counters: BTreeMap::new(),
            sets: BTreeMap::new(),
            samples: Vec::new(),
            violations: Vec::new(),
            violation_count: 0,
            sigs_seen: BTreeMap::new(),
            inconclusive: Vec::new(),
            ring: VecDeque::new(),
            sample_every: 1,
        }
    }
    /// one oracle evaluation; `key` identifies the case (hashed input tuple), `trivial`
    /// by the property's rule
    pub fn eval<T: Hash>(&mut self, key: &T, trivial: bool) {
        self.evals += 1;
        if !trivial {
            self.distinct.insert(h64(key));
        }
    }
    pub fn form(&mut self, name: &str) {
        *self.forms.entry(name.to_string()).or_insert(0) += 1;
    }
    pub fn declare_form(&mut self, name: &str) {
        self.forms.entry(name.to_string()).or_insert(0);
    }
    pub fn class(&mut self, name: &str) {
        *self.classes.entry(name.to_string()).or_insert(0) += 1;
    }
    pub fn declare_class(&mut self, name: &str) {
        self.classes.entry(name.to_string()).or_insert(0);
    }
    pub fn count(&mut self, name: &str, n: u64) {
        *self.counters.entry(name.to_string()).or_insert(0) += n;
    }
    pub fn set_insert(&mut self, name: &str, v: u64) {
        self.sets.entry(name.to_string()).or_default().insert(v);
    }
    pub fn event(&mut self, e: String) {
        note_current(&e);
        if self.ring.len() >= RING {
            self.ring.pop_front();
        }
        self.ring.push_back(e);
    }
    pub fn sample(&mut self, v: Value) {
        if self.samples.len() < MAX_SAMPLES {
            self.samples.push(v);
        }
    }
    pub fn violation(&mut self, sig: impl Into<String>, what: impl Into<String>, detail: Value) {
        let sig = sig.into();
        let what: String = what.into();
        // process-wide log of what has been observed so far (per-worker recorders are merged only at the end of a
        // section): read by the memory guard, so that violations already seen are reported when a run has to be cut short
        if let Ok(mut g) = VIOL_LOG.lock() {
            if g.len() < 40 && !g.iter().any(|(s0, _)| s0 == &sig) {
                g.push((sig.clone(), what.clone()));
            }
        }
        self.violation_count += 1;
        let n = self.sigs_seen.entry(sig.clone()).or_insert(0);
        *n += 1;
        // keep at most 3 witnesses per signature so that one defect does not mask others
        if *n <= 3 && self.violations.len() < MAX_VIOLATIONS_KEPT {
            self.violations.push(Violation {
                sig,
                what: what.into(),
                detail,
                events: self.ring.iter().cloned().collect(),
            });
        }
    }
    pub fn inconclusive(&mut self, why: impl Into<String>) {
        let w = why.into();
        if !self.inconclusive.contains(&w) {
            self.inconclusive.push(w);
        }
    }
    pub fn merge(&mut self, o: Rec) {
        self.evals += o.evals;
        self.distinct.extend(o.distinct);
        for (k, v) in o.forms {
            *self.forms.entry(k).or_insert(0) += v;
        }
        for (k, v) in o.classes {
            *self.classes.entry(k).or_insert(0) += v;
        }
        for (k, v) in o.counters {
            *self.counters.entry(k).or_insert(0) += v;
        }
        for (k, v) in o.sets {
            self.sets.entry(k).or_default().extend(v);
        }
        for s in o.samples {
            self.sample(s);
        }
        self.violation_count += o.violation_count;
        for (k, v) in o.sigs_seen {
            *self.sigs_seen.entry(k).or_insert(0) += v;
        }
        for v in o.violations {
            let kept = self.violations.iter().filter(|x| x.sig == v.sig).count();
            if kept < 3 && self.violations.len() < MAX_VIOLATIONS_KEPT {
                self.violations.push(v);
            }
        }
        for i in o.inconclusive {
            self.inconclusive(i);
        }
    }
    /// any declared form / class never reached => inconclusive
    pub fn check_coverage(&mut self) {
        let zero_forms: Vec<String> = self.forms.iter().filter(|(_, v)| **v == 0).map(|(k, _)| k.clone()).collect();
        if !zero_forms.is_empty() {
            self.inconclusive(format!("catalogued forms never executed: {}", zero_forms.join(",")));
        }
        let zero_classes: Vec<String> =
            self.classes.iter().filter(|(_, v)| **v == 0).map(|(k, _)| k.clone()).collect();
        if !zero_classes.is_empty() {
            self.inconclusive(format!("edge classes never reached: {}", zero_classes.join(",")));
        }
        if self.evals == 0 {
            self.inconclusive("no oracle evaluations".to_string());
        }
    }
    pub fn to_json(&self) -> Value {
        let sets: BTreeMap<String, usize> = self.sets.iter().map(|(k, v)| (k.clone(), v.len())).collect();
        json!({
            "evaluations": self.evals,
            "distinct_nontrivial": self.distinct.len(),
            "forms": self.forms,
            "edge_classes": self.classes,
            "counters": self.counters,
            "distinct_sets": sets,
            "samples": self.samples,
            "violation_count": self.violation_count,
            "violation_signatures": self.sigs_seen,
            "violations": self.violations.iter().map(|v| json!({
                "sig": v.sig, "what": v.what, "detail": v.detail, "events": v.events,
            })).collect::<Vec<_>>(),
            "inconclusive": self.inconclusive,
        })
    }
}

// ---- hang watchdog: a library call that does not return. Every worker owns a slot; `guarded` stamps the slot
// with a coarse tick (advanced once per second by the watchdog thread) on entry and clears it on exit. A slot
// that stays stamped for hang_secs() (600 s unless VERIF_HANG_SECS says otherwise) means one call has been running that long: the run is ended with a
// violation of the running property ("does not return"), carrying the last event the worker recorded.
pub const HANG_SECS_DEFAULT: u64 = 600;
pub fn hang_secs() -> u64 {
    std::env::var("VERIF_HANG_SECS").ok().and_then(|v| v.parse().ok()).unwrap_or(HANG_SECS_DEFAULT)
}
pub static TICK: std::sync::atomic::AtomicU64 = std::sync::atomic::AtomicU64::new(1);
const NSLOTS: usize = 256;
#[allow(clippy::declare_interior_mutable_const)]
const SLOT0: std::sync::atomic::AtomicU64 = std::sync::atomic::AtomicU64::new(0);
pub static SLOTS: [std::sync::atomic::AtomicU64; NSLOTS] = [SLOT0; NSLOTS];
pub static LAST_EVENT: std::sync::Mutex<Vec<String>> = std::sync::Mutex::new(Vec::new());
static NEXT_SLOT: std::sync::atomic::AtomicUsize = std::sync::atomic::AtomicUsize::new(0);
thread_local! {
    static MY_SLOT: usize = NEXT_SLOT.fetch_add(1, std::sync::atomic::Ordering::Relaxed) % NSLOTS;
}
pub fn my_slot() -> usize {
    MY_SLOT.with(|s| *s)
}
/// remember what the calling worker is about to do (shown if the call never returns)
pub fn note_current(e: &str) {
    let slot = my_slot();
    if let Ok(mut g) = LAST_EVENT.try_lock() {
        if g.len() <= slot {
            g.resize(slot + 1, String::new());
        }
        g[slot].clear();
        g[slot].push_str(&e[..e.len().min(400)]);
    }
}

/// Run `f` on the library side; a panic is reported as Err(message).
pub static VIOL_LOG: std::sync::Mutex<Vec<(String, String)>> = std::sync::Mutex::new(Vec::new());

pub fn guarded<T>(f: impl FnOnce() -> T) -> Result<T, String> {
    use std::sync::atomic::Ordering::Relaxed;
    let slot = my_slot();
    let prev = SLOTS[slot].swap(TICK.load(Relaxed), Relaxed);
    let r = guarded_inner(f);
    SLOTS[slot].store(prev, Relaxed);
    r
}
fn guarded_inner<T>(f: impl FnOnce() -> T) -> Result<T, String> {
    match catch_unwind(AssertUnwindSafe(f)) {
        Ok(v) => Ok(v),
        Err(e) => {
            let msg = if let Some(s) = e.downcast_ref::<&str>() {
                s.to_string()
            } else if let Some(s) = e.downcast_ref::<String>() {
                s.clone()
            } else {
                "panic".to_string()
            };
            Err(msg)
        }
    }
}

pub fn silence_panics() {
    std::panic::set_hook(Box::new(|_| {}));
}

pub fn rng_for(seed: u64, prop: &str, worker: usize, stream: u64) -> ChaCha20Rng {
    let mut key = [0u8; 32];
    key[..8].copy_from_slice(&seed.to_le_bytes());
    key[8..16].copy_from_slice(&h64(&prop).to_le_bytes());
    key[16..24].copy_from_slice(&(worker as u64).to_le_bytes());
    key[24..32].copy_from_slice(&stream.to_le_bytes());
    ChaCha20Rng::from_seed(key)
}

pub fn workers() -> usize {
    std::env::var("VERIF_WORKERS").ok().and_then(|v| v.parse().ok()).unwrap_or_else(|| {
        std::thread::available_parallelism().map(|n| n.get()).unwrap_or(4).min(16)
    })
}

/// Run `f(worker_index, n_workers, &mut Rec)` on `workers()` threads, merge the recorders.
pub fn par<F>(rec: &mut Rec, f: F)
where
    F: Fn(usize, usize, &mut Rec) + Sync,
{
    let n = workers();
    let results: Vec<Rec> = std::thread::scope(|s| {
        let handles: Vec<_> = (0..n)
            .map(|w| {
                let f = &f;
                s.spawn(move || {
                    let mut r = Rec::new();
                    let res = catch_unwind(AssertUnwindSafe(|| f(w, n, &mut r)));
                    if let Err(e) = res {
                        let msg = if let Some(s) = e.downcast_ref::<&str>() {
                            s.to_string()
                        } else if let Some(s) = e.downcast_ref::<String>() {
                            s.clone()
                        } else {
                            "panic".to_string()
                        };
                        r.inconclusive(format!("harness worker {w} panicked outside a guarded library call: {msg}"));
                    }
                    r
                })
            })
            .collect();
        handles.into_iter().map(|h| h.join().expect("worker join")).collect()
    });
    for r in results {
        rec.merge(r);
    }
}

pub fn hx(b: &[u8]) -> String {
    hex::encode(b)
}
