//! Engineered hostile inputs: solve (model side) for Elligator inputs r0 and encodings s such
//! that the value handed to the square-root-of-ratio routine inside `encode_to_curve` /
//! `vartime_decompress` has a *chosen* 2-primary component. Uniform inputs reach a particular
//! lookup-table row or an early-exit condition with probability 2^-39 .. 2^-47; these inputs hit
//! them on purpose.
#![allow(dead_code)]
use crate::c09::{element_with_exponent, Sylow};
use crate::model::{b, B};
use crate::poly::{pmul, psub, roots, Poly};
use crate::sh::Ctx;
use rand_core::RngCore;

/// r0 values for which x = num(r)*den(r) (r = zeta*r0^2) equals 1/ratio with ratio^M = g^e
pub fn elligator_r0_for_exponent(ctx: &Ctx, sy: &Sylow, e: &B, rng: &mut impl RngCore) -> Vec<B> {
    let c = &ctx.c;
    let f = &c.f;
    let (a, d) = (&c.a, &c.d);
    let ratio = element_with_exponent(ctx, sy, e, rng);
    let target = f.inv(&ratio).unwrap(); // x = num*den
    let dma = f.sub(d, a);
    let am2d = f.sub(a, &f.mul(&b(2), d));
    // den(r) = (d r - (d-a)) ((d-a) r - d),  num(r) = (r+1)(a-2d)
    let p1: Poly = vec![f.neg(&dma), d.clone()];
    let p2: Poly = vec![f.neg(d), dma.clone()];
    let pn: Poly = vec![am2d.clone(), am2d.clone()];
    let x = pmul(f, &pn, &pmul(f, &p1, &p2));
    let poly = psub(f, &x, &vec![target]);
    let mut out = Vec::new();
    let zi = f.inv(&c.zeta).unwrap();
    for r in roots(f, &poly, rng) {
        if let Some(r0) = f.sqrt(&f.mul(&r, &zi)) {
            out.push(r0);
        }
    }
    out
}

/// non-negative s for which den = u2*u1^2 (u1 = 1-s^2, u2 = u1^2 - 4d s^2) equals 1/ratio with
/// ratio^M = g^e. For even e these are candidates for valid encodings.
pub fn decode_s_for_exponent(ctx: &Ctx, sy: &Sylow, e: &B, rng: &mut impl RngCore) -> Vec<B> {
    let c = &ctx.c;
    let f = &c.f;
    let ratio = element_with_exponent(ctx, sy, e, rng);
    let target = f.inv(&ratio).unwrap();
    // in t = s^2: u1 = 1 - t, u2 = (1-t)^2 - 4 d t, den = u2 * (1-t)^2
    let u1: Poly = vec![b(1), f.neg(&b(1))];
    let u1sq = pmul(f, &u1, &u1);
    let fourd_t: Poly = vec![b(0), f.mul(&b(4), &c.d)];
    let u2 = psub(f, &u1sq, &fourd_t);
    let den = pmul(f, &u2, &u1sq);
    let poly = psub(f, &den, &vec![target]);
    let mut out = Vec::new();
    for t in roots(f, &poly, rng) {
        if let Some(s) = f.sqrt(&t) {
            out.push(f.abs(&s));
        }
    }
    out
}
