//! Engineered hostile inputs: solve (model side) for Elligator inputs r0 and encodings s such
//! that the value handed to the square-root-of-ratio routine inside `encode_to_curve` /
//! `vartime_decompress` has a *chosen* 2-primary component. Uniform inputs reach a particular
//! lookup-table row or an early-exit condition with probability 2^-39 .. 2^-47; these inputs hit
//! them on purpose.
#![allow(dead_code)]
use crate::c09::{element_with_exponent, Sylow};
use crate::model::{b, Fld, B};
use crate::poly::{pmul, psub, roots, Poly};
use crate::sh::Ctx;
use rand_core::RngCore;

/// r0 values for which x = num(r)*den(r) (r = zeta*r0^2) equals 1/ratio with ratio^M = g^e
pub fn elligator_r0_for_exponent(ctx: &Ctx, sy: &Sylow, e: &B, rng: &mut impl RngCore) -> Vec<B> {
    let c = &ctx.c;
    let f = &c.f;
    let (a, d) = (&c.a, &c.d);
    let ratio = element_with_exponent(ctx, sy, e, rng);
    let target = f.inv(&ratio).unwrap(); // x = num*den
    let dma = f.sub(d, a);
    let am2d = f.sub(a, &f.mul(&b(2), d));
    // den(r) = (d r - (d-a)) ((d-a) r - d),  num(r) = (r+1)(a-2d)
    let p1: Poly = vec![f.neg(&dma), d.clone()];
    let p2: Poly = vec![f.neg(d), dma.clone()];
    let pn: Poly = vec![am2d.clone(), am2d.clone()];
    let x = pmul(f, &pn, &pmul(f, &p1, &p2));
    let poly = psub(f, &x, &vec![target]);
    let mut out = Vec::new();
    let zi = f.inv(&c.zeta).unwrap();
    for r in roots(f, &poly, rng) {
        if let Some(r0) = f.sqrt(&f.mul(&r, &zi)) {
            out.push(r0);
        }
    }
    out
}

/// non-negative s for which den = u2*u1^2 (u1 = 1-s^2, u2 = u1^2 - 4d s^2) equals 1/ratio with
/// ratio^M = g^e. For even e these are candidates for valid encodings.
pub fn decode_s_for_exponent(ctx: &Ctx, sy: &Sylow, e: &B, rng: &mut impl RngCore) -> Vec<B> {
    let c = &ctx.c;
    let f = &c.f;
    let ratio = element_with_exponent(ctx, sy, e, rng);
    let target = f.inv(&ratio).unwrap();
    // in t = s^2: u1 = 1 - t, u2 = (1-t)^2 - 4 d t, den = u2 * (1-t)^2
    let u1: Poly = vec![b(1), f.neg(&b(1))];
    let u1sq = pmul(f, &u1, &u1);
    let fourd_t: Poly = vec![b(0), f.mul(&b(4), &c.d)];
    let u2 = psub(f, &u1sq, &fourd_t);
    let den = pmul(f, &u2, &u1sq);
    let poly = psub(f, &den, &vec![target]);
    let mut out = Vec::new();
    for t in roots(f, &poly, rng) {
        if let Some(s) = f.sqrt(&t) {
            out.push(f.abs(&s));
        }
    }
    out
}

/// "Near-valid rejects" of the decoder: non-negative canonical s whose discriminant u2*u1^2 is a
/// NON-square (so the specification rejects) although the candidate point the decoder would compute
/// from the square root of zeta/(u2*u1^2) — what sqrt_ratio_zeta returns together with its `false`
/// flag — satisfies the curve equation. A decoder that validates the coordinates instead of honouring
/// the flag accepts exactly these strings. With v^2 = zeta/(u2 u1^2): x = 2 s zeta/u1,
/// y^2 = (1+t)^2 zeta/u2 (t = s^2), and -x^2 + y^2 = 1 + d x^2 y^2 becomes the quartic
///   -4 zeta^2 t u2 + zeta (1+t)^2 u1^2 - u1^2 u2 - 4 d zeta^3 t (1+t)^2 = 0.
pub fn decode_nonsquare_oncurve(ctx: &Ctx, rng: &mut impl RngCore) -> Vec<B> {
    let c = &ctx.c;
    let f = &c.f;
    let z = &c.zeta;
    let u1: Poly = vec![b(1), f.neg(&b(1))];
    let u1sq = pmul(f, &u1, &u1);
    let fourd_t: Poly = vec![b(0), f.mul(&b(4), &c.d)];
    let u2 = psub(f, &u1sq, &fourd_t);
    let opt: Poly = vec![b(1), b(1)];
    let optsq = pmul(f, &opt, &opt);
    let t: Poly = vec![b(0), b(1)];
    let z2 = f.sq(z);
    let z3 = f.mul(&z2, z);
    let term1 = crate::poly::pscale(f, &pmul(f, &t, &u2), &f.neg(&f.mul(&b(4), &z2)));
    let term2 = crate::poly::pscale(f, &pmul(f, &optsq, &u1sq), z);
    let term3 = pmul(f, &u1sq, &u2);
    let term4 = crate::poly::pscale(f, &pmul(f, &t, &optsq), &f.mul(&f.mul(&b(4), &c.d), &z3));
    let poly = psub(f, &psub(f, &crate::poly::padd(f, &term1, &term2), &term3), &term4);
    let mut out = Vec::new();
    for tv in roots(f, &poly, rng) {
        if let Some(s) = f.sqrt(&tv) {
            let s = f.abs(&s);
            // keep only those the specification rejects for a non-square discriminant
            if matches!(c.decode_spec_fe(&s), Err(crate::model::SpecErr::NotOnCurve)) {
                out.push(s);
            }
        }
    }
    out.sort();
    out.dedup();
    out
}

/// All Elligator preimages of a group element: every r0 with elligatorSpec(r0) decaf-equal to `target`
/// (the map is up to 8-to-1). For both curve points of the coset, the Jacobi-quartic s solves
/// x s^2 + 2 s - x = 0 (a = -1); for each such s the square branch needs n1(r) = s^2, the non-square
/// branch r*n1(r) = s^2, both quadratics in r = zeta r0^2. Candidates are confirmed with the model map.
pub fn elligator_preimages(ctx: &Ctx, target: &crate::model::Pt, rng: &mut impl RngCore) -> Vec<B> {
    let c = &ctx.c;
    let f = &c.f;
    let (a, d) = (&c.a, &c.d);
    let dma = f.sub(d, a);
    let am2d = f.sub(a, &f.mul(&b(2), d));
    let p1: Poly = vec![f.neg(&dma), d.clone()];
    let p2: Poly = vec![f.neg(d), dma.clone()];
    let den = pmul(f, &p1, &p2);
    let n_sq: Poly = vec![am2d.clone(), am2d.clone()]; // (r+1)(a-2d)
    let n_ns: Poly = pmul(f, &vec![b(0), b(1)], &n_sq); // r(r+1)(a-2d)
    let zi = f.inv(&c.zeta).unwrap();
    let mut out: Vec<B> = Vec::new();
    for pt in [target.clone(), c.torque(target)] {
        if pt.x == b(0) {
            continue;
        }
        // x s^2 + 2 s - x = 0
        let quad: Poly = vec![f.neg(&pt.x), b(2), pt.x.clone()];
        for s in roots(f, &quad, rng) {
            let s2 = f.sq(&s);
            for num in [&n_sq, &n_ns] {
                let poly = psub(f, &crate::poly::pscale(f, &den, &s2), num);
                for r in roots(f, &poly, rng) {
                    if let Some(r0) = f.sqrt(&f.mul(&r, &zi)) {
                        if let Some((img, _)) = c.elligator_spec(&r0) {
                            if c.eq(&img, target) {
                                let r0n = f.neg(&r0);
                                if !out.contains(&r0) {
                                    out.push(r0);
                                }
                                if !out.contains(&r0n) {
                                    out.push(r0n);
                                }
                            }
                        }
                    }
                }
            }
        }
    }
    out.sort();
    out
}

/// structured values for an *intermediate* quantity: zero low limb(s), all-ones low limb, 2-adic relations
/// with the modulus (routines that work on limbs of an intermediate meet their special cases there)
pub fn intermediate_targets(p: &B) -> Vec<B> {
    // first the values tied to the internal (Montgomery) representation: the element stored as the integer
    // 1, 2, -1, and R, R^2 themselves (a shortcut that recognises "one" / "small" on the stored words
    // instead of the canonical value fires on exactly these)
    let mut t: Vec<B> = Vec::new();
    {
        let f = Fld::new(p.clone());
        let r = (b(1) << (64 * ((f.bits + 63) / 64))) % p;
        let rinv = f.inv(&r).unwrap();
        t.push(rinv.clone());
        t.push(f.neg(&rinv));
        t.push(f.mul(&b(2), &rinv));
        t.push(f.sq(&rinv));
        t.push(r.clone());
        t.push(f.sq(&r));
        t.push(b(1));
        t.push(p - b(1));
    }
    t.extend(crate::zoo::two_adic_relations(p));
    for k in 1u64..=24 {
        for sh in [64usize, 128, 192] {
            let v = b(k.wrapping_mul(0x9E37_79B9) | 1) << sh;
            if &v < p {
                t.push(v.clone());
                t.push(&v - b(1));
                t.push(p - &v);
            }
        }
    }
    t
}

/// non-negative s for which an intermediate of the decoder (u1 = 1 - s^2, u2 = u1^2 - 4 d s^2) equals a target
pub fn decode_s_for_intermediates(ctx: &Ctx, rng: &mut impl RngCore) -> Vec<B> {
    let c = &ctx.c;
    let f = &c.f;
    let mut out = Vec::new();
    let two_plus_4d = f.add(&b(2), &f.mul(&b(4), &c.d));
    for tg in intermediate_targets(&f.p) {
        // u1 = T  =>  t = 1 - T
        let mut ts: Vec<B> = vec![f.sub(&b(1), &tg)];
        // u2 = T  =>  t^2 - (2 + 4d) t + (1 - T) = 0
        let quad: Poly = vec![f.sub(&b(1), &tg), f.neg(&two_plus_4d), b(1)];
        ts.extend(roots(f, &quad, rng));
        // the argument of the inverse square root, u2 * u1^2 = T (a quartic in t = s^2), and its inverse
        let u1: Poly = vec![b(1), f.neg(&b(1))];
        let u1sq = pmul(f, &u1, &u1);
        let u2: Poly = psub(f, &u1sq, &vec![b(0), f.mul(&b(4), &c.d)]);
        let arg = pmul(f, &u2, &u1sq);
        for tv in [Some(tg.clone()), f.inv(&tg)].into_iter().flatten() {
            ts.extend(roots(f, &psub(f, &arg, &vec![tv]), rng));
        }
        for t in ts {
            if let Some(s) = f.sqrt(&t) {
                out.push(f.abs(&s));
            }
        }
    }
    out.sort();
    out.dedup();
    out
}

/// y coordinates (as field elements) for which an intermediate of "build the curve point with this y and
/// test it" equals a target: 1 - y^2, a - d y^2, x^2 = (1 - y^2)/(a - d y^2), 1 - d x^2, 1 + x^2
pub fn y_for_intermediates(ctx: &Ctx) -> Vec<B> {
    let c = &ctx.c;
    let f = &c.f;
    let (a, d) = (&c.a, &c.d);
    let mut out = Vec::new();
    for tg in intermediate_targets(&f.p) {
        let mut y2s: Vec<B> = Vec::new();
        y2s.push(f.sub(&b(1), &tg));                                   // 1 - y^2 = T
        if let Some(v) = f.div(&f.sub(a, &tg), d) { y2s.push(v); }     // a - d y^2 = T
        // x^2 = X  =>  y^2 = (1 - a X)/(1 - d X)   (from a x^2 + y^2 = 1 + d x^2 y^2)
        let from_x2 = |x2: &B| -> Option<B> { f.div(&f.sub(&b(1), &f.mul(a, x2)), &f.sub(&b(1), &f.mul(d, x2))) };
        if let Some(v) = from_x2(&tg) { y2s.push(v); }                  // x^2 = T
        if let Some(x2) = f.div(&f.sub(&b(1), &tg), d) { if let Some(v) = from_x2(&x2) { y2s.push(v); } } // 1 - d x^2 = T
        if let Some(v) = from_x2(&f.sub(&tg, &b(1))) { y2s.push(v); }    // 1 + x^2 = T
        for y2 in y2s {
            if let Some(y) = f.sqrt(&y2) {
                out.push(y.clone());
                out.push(f.neg(&y));
            }
        }
    }
    out.sort();
    out.dedup();
    out
}

/// the cubic x(r) = num(r) * den(r) of the Elligator map (r = zeta r0^2) as a polynomial in r
fn elligator_radicand_poly(ctx: &Ctx) -> Poly {
    let c = &ctx.c;
    let f = &c.f;
    let (a, d) = (&c.a, &c.d);
    let dma = f.sub(d, a);
    let am2d = f.sub(a, &f.mul(&b(2), d));
    let p1: Poly = vec![f.neg(&dma), d.clone()];
    let p2: Poly = vec![f.neg(d), dma.clone()];
    let pn: Poly = vec![am2d.clone(), am2d.clone()];
    pmul(f, &pn, &pmul(f, &p1, &p2))
}

/// all r0 (both signs) whose Elligator radicand num*den equals `x`
pub fn elligator_r0_for_radicand(ctx: &Ctx, x: &B, rng: &mut impl RngCore) -> Vec<B> {
    let c = &ctx.c;
    let f = &c.f;
    let poly = psub(f, &elligator_radicand_poly(ctx), &vec![x.clone()]);
    let zi = f.inv(&c.zeta).unwrap();
    let mut out = Vec::new();
    for r in roots(f, &poly, rng) {
        if let Some(r0) = f.sqrt(&f.mul(&r, &zi)) {
            out.push(f.neg(&r0));
            out.push(r0);
        }
    }
    out
}

/// the radicand of an Elligator input
pub fn elligator_radicand(ctx: &Ctx, r0: &B) -> B {
    let c = &ctx.c;
    let f = &c.f;
    let r = f.mul(&c.zeta, &f.sq(r0));
    crate::poly::peval(f, &elligator_radicand_poly(ctx), &r)
}

/// A rescaling factor lambda for which the argument of the inverse square root inside the encoder,
/// (X^2 - T^2)(a - d) X^2 = lambda^4 (a-d) x^4 (1-y^2) for the presentation (lambda x : lambda y : lambda : lambda x y),
/// equals `target` (None when target/arg(1) has no fourth root, which happens for 3 elements out of 4).
pub fn lambda_for_encoder_radicand(c: &crate::model::Curve, pt: &crate::model::Pt, target: &B) -> Option<B> {
    let f = &c.f;
    let x2 = f.sq(&pt.x);
    let arg1 = f.mul(&f.mul(&f.sub(&c.a, &c.d), &f.sq(&x2)), &f.sub(&b(1), &f.sq(&pt.y)));
    let q = f.mul(target, &f.inv(&arg1)?);
    let h = f.sqrt(&q)?;
    f.sqrt(&h).or_else(|| f.sqrt(&f.neg(&h)))
}

/// Encodings s for which two *intermediate quantities* of the decoder coincide or are negatives of each other
/// (s, 2s, s^2, u1 = 1 - s^2, 1 + s^2, u1^2, 4d s, 4d s^2, u2, u2 u1^2, and the constants 1, 2, 4d, d, a - d): every
/// root in the field of A(s) -+ B(s) for every pair. A guard, shortcut or fused operation that compares or merges
/// two of these meets its case exactly on these inputs (a sparse algebraic set no sampling reaches).
pub fn decode_s_coinciding_intermediates(ctx: &Ctx) -> Vec<B> {
    use std::sync::OnceLock;
    static CACHE: OnceLock<Vec<B>> = OnceLock::new();
    CACHE.get_or_init(|| {
        let c = &ctx.c;
        let f = &c.f;
        let mut rng = crate::mon::rng_for(1, "coinciding-intermediates", 0, 0);
        let fd = f.mul(&b(4), &c.d);
        let u1: Poly = vec![b(1), b(0), f.neg(&b(1))];
        let u1sq = pmul(f, &u1, &u1);
        let u2 = psub(f, &u1sq, &vec![b(0), b(0), fd.clone()]);
        let polys: Vec<Poly> = vec![
            vec![b(0), b(1)],
            vec![b(0), b(2)],
            vec![b(0), b(0), b(1)],
            u1.clone(),
            vec![b(1), b(0), b(1)],
            u1sq.clone(),
            vec![b(0), fd.clone()],
            vec![b(0), b(0), fd.clone()],
            u2.clone(),
            pmul(f, &u2, &u1sq),
            vec![b(1)],
            vec![b(2)],
            vec![fd.clone()],
            vec![c.d.clone()],
            vec![f.sub(&c.a, &c.d)],
        ];
        let mut out: Vec<B> = Vec::new();
        for i in 0..polys.len() {
            for j in i + 1..polys.len() {
                let neg_j: Poly = polys[j].iter().map(|x| f.neg(x)).collect();
                for q in [psub(f, &polys[i], &polys[j]), psub(f, &polys[i], &neg_j)] {
                    for r in roots(f, &q, &mut rng) {
                        out.push(f.abs(&r));
                        out.push(r);
                    }
                }
            }
        }
        out.sort();
        out.dedup();
        out
    }).clone()
}
