#!/bin/bash
# dev helper: build one flavour, show only harness diagnostics
f=$1; shift
RUSTFLAGS="--cfg decaf377_verif" CARGO_TARGET_DIR=/verif/target/$f cargo build --release --offline --features $f --message-format short "$@" 2>&1 | grep -v "^/repo\|^warning: .decaf377\|^\s*Compiling\|^warning: unused\|generated [0-9]* warning" | grep -E "error|^src/.*warning|Finished" | head -${LINES_MAX:-40}
