"""Offline checkers over recorded logs (python side of the monitors)."""
import json
import os


def _kind(line):
    toks = line.split(" ")
    if toks[0] == "prog":
        # prog <i>.<j> <form...> -> ...
        form = line.split(" -> ")[0].split(" ", 2)[2]
        form = form.split(" k=")[0]
        return "group program step: " + form
    return " ".join(toks[:2])


def c12_compare(pid, tier, seed, results, built, root, results_dir, run_bin, log):
    """First differing line between the transcripts of the two builds (and, when the extra feature
    configurations were run, between each of them and the arkworks build)."""
    paths = {}
    for r in results:
        p = os.path.join(results_dir, f"{pid}-transcript-{r['_flavour']}-release-{tier}.json.transcript")
        if os.path.exists(p):
            paths[r["_flavour"]] = p
    if not {"ark", "min"} <= set(paths):
        return {"inconclusive": ["transcript of one build is missing"]}
    with open(paths["ark"]) as f:
        a = f.read().split("\n")
    violations = []
    sigs = {}
    compared = 0
    kinds = {}
    for other in ["min"] + sorted(k for k in paths if k not in ("ark", "min")):
        with open(paths[other]) as f:
            b = f.read().split("\n")
        tag = "" if other == "min" else f"[ark vs {other}]"
        n = max(len(a), len(b))
        # the streams are generated identically, so a plain index-wise comparison is the checker;
        # once the inputs themselves diverge (a line's left-hand side differs) later lines are not
        # comparable any more and the comparison of that shard stops.
        shard = None
        skip_shard = False
        for idx in range(n):
            la = a[idx] if idx < len(a) else "<missing>"
            lb = b[idx] if idx < len(b) else "<missing>"
            if la.startswith("# shard"):
                shard = la
                skip_shard = False
            if skip_shard:
                continue
            compared += 1
            k = _kind(la) if la else ""
            kinds[k] = kinds.get(k, 0) + 1
            if la != lb:
                lhs_a, lhs_b = la.split(" -> ")[0], lb.split(" -> ")[0]
                sig = f"C12:differs{tag}:{_kind(la)}"
                sigs[sig] = sigs.get(sig, 0) + 1
                if sigs[sig] <= 3:
                    violations.append({"sig": sig, "what": f"builds differ at transcript line {idx + 1} ({shard}): ark `{la[:300]}` vs {other} `{lb[:300]}`",
                                       "detail": {"line": idx + 1, "ark": la, other: lb, "shard": shard}, "events": a[max(0, idx - 5):idx]})
                if lhs_a != lhs_b:
                    skip_shard = True
    res = {"evaluations": compared, "distinct_nontrivial": 0, "violations": violations, "violation_signatures": sigs,
           "violation_count": sum(sigs.values()), "counters": {"transcript_lines_compared": compared, "transcripts": len(paths)},
           "samples": [{"compared_line_pair": a[5] if len(a) > 5 else ""}],
           "_flavour": "+".join(sorted(paths)), "_profile": "release", "_sub": "compare", "inconclusive": []}
    if compared < 1000:
        res["inconclusive"].append("fewer than 1000 transcript lines compared")
    return {"result": res}


def c17_constants(pid, tier, seed, results, built, root, results_dir, run_bin, log):
    """Recompute every dumped constant from the moduli (python side, lib/c17_check.py)."""
    import c17_check
    out = {"inconclusive": []}
    checks_total = 0
    distinct = set()
    violations = []
    sigs = {}
    notes = []
    samples = []
    budget = 8 if tier == "quick" else 600
    for r in results:
        dump = r.pop("x_dump", None)
        if dump is None:
            out["inconclusive"].append(f"no constant dump from build {r['_flavour']}")
            continue
        try:
            checks, viol, nts = c17_check.check(dump, r["_flavour"], budget)
        except AssertionError as ex:
            out["inconclusive"].append(f"checker self-check failed: {ex!r}")
            continue
        checks_total += len(checks)
        for name, kind in checks:
            distinct.add((r["_flavour"], name))
        for v in viol:
            v["sig"] = v["sig"] + f" [{r['_flavour']}]"
            sigs[v["sig"]] = sigs.get(v["sig"], 0) + 1
            violations.append(v)
        notes += [f"[{r['_flavour']}] {n}" for n in nts]
        samples.append({"build": r["_flavour"], "checked": [f"{n} ({k})" for n, k in checks[:6]],
                        "example_value": {k: dump["constants"][k] for k in list(dump["constants"])[:2]}})
        # the dump run itself is not an oracle evaluation
        r["evaluations"] = 0
        r["distinct_nontrivial"] = 0
        r["samples"] = []
    res = {"evaluations": checks_total, "distinct_nontrivial": len(distinct), "violations": violations,
           "violation_signatures": sigs, "violation_count": len(violations),
           "counters": {"constants_checked": checks_total}, "samples": samples, "x_notes": notes,
           "_flavour": "ark+min", "_profile": "release", "_sub": "recompute", "inconclusive": []}
    if checks_total < 100:
        res["inconclusive"].append(f"only {checks_total} constant checks ran")
    out["result"] = res
    return out
