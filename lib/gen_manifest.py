#!/usr/bin/env python3
"""Regenerate MANIFEST.json from lib/props.py (single source of the per-property texts)."""
import json
import os
import sys

ROOT = os.path.dirname(os.path.dirname(os.path.abspath(__file__)))
sys.path.insert(0, os.path.join(ROOT, "lib"))
from props import PROPS  # noqa: E402

ids = sorted(PROPS)
manifest = {
    "version": 1,
    "setup_cmd": "./setup.sh",
    "hooks": {
        "guard": "decaf377_verif",
        "enable": "RUSTFLAGS=\"--cfg decaf377_verif\" (set by ./check for every harness build; a rustc cfg flag, not a cargo "
                  "feature, so feature unification can never switch it on)",
        "baseline_off_cmd": "cd /repo && cargo test --workspace --no-fail-fast --offline",
        "source_commits": ["a6a4b16", "5c0e8c9"],
        "add_only": True,
    },
    "engines": [
        {"name": "dvharness", "path": "harness", "serves_properties": ids,
         "kind_free_text": "Rust monitor binary, built twice (decaf377 with arkworks+r1cs / --no-default-features); BigUint shadow "
                           "reference model self-tested against the repo's sage vectors; operator/gadget/field form catalogues; "
                           "hostile value zoos; per-worker recorders merged at the end"},
        {"name": "check", "path": "check", "serves_properties": ids,
         "kind_free_text": "python3 driver: rebuilds from /repo's working tree with hooks on, runs the binaries under a watchdog, runs "
                           "the offline checkers (transcript diff for C12, constant recomputation for C17), matches violations against "
                           "known_findings.json, writes evidence"},
    ],
    "checks": [],
    "not_applicable": [],
    "notes": "Technique family: runtime monitoring. Every property is decided by an oracle observing executions of the real code "
             "(reference-model monitors, invariant hooks, fault-injecting hint monitor, offline trace checkers). Exit 0 = held on what "
             "was observed (KNOWN-FINDING lines possible), 1 = VIOLATION, 2 = INCONCLUSIVE (never a VIOLATION line). See DESIGN.md.",
}
for pid in ids:
    p = PROPS[pid]
    manifest["checks"].append({
        "property_id": pid,
        "quick_cmd": f"./check {pid} quick",
        "thorough_cmd": f"./check {pid} thorough",
        "evidence_file": f"evidence/{pid}.json",
        "replay_cmd_template": "./check replay {path}",
        "engine": "dvharness",
        "level_claimed": {"category": p["level"], "text": p["text"], "design_ref": p["design_ref"]},
        "level_note": p["note"],
        "technique": p["technique"],
    })
with open(os.path.join(ROOT, "MANIFEST.json"), "w") as f:
    json.dump(manifest, f, indent=1)
print("MANIFEST.json written with", len(ids), "checks")
