"""C17 checker: recompute every published constant from the moduli alone (which are re-derived
from the BLS12-377 parameter x) and compare with / test the values the library exposes.

Rules are of two kinds: `equals` (only one value is right) and `satisfies` (several values are
legitimate: generators, roots of unity, non-residues)."""
import math
import random
import time

X = 0x8508C00000000001


def I(s):
    return int(s, 16)


# ------------------------------------------------------------------ number theory helpers
def is_prime(n):
    if n < 2:
        return False
    for p in (2, 3, 5, 7, 11, 13, 17, 19, 23, 29, 31, 37):
        if n % p == 0:
            return n == p
    d, r = n - 1, 0
    while d % 2 == 0:
        d //= 2
        r += 1
    for a in (2, 3, 5, 7, 11, 13, 17, 19, 23, 29, 31, 37, 41, 43, 47, 53):
        x = pow(a, d, n)
        if x in (1, n - 1):
            continue
        for _ in range(r - 1):
            x = x * x % n
            if x == n - 1:
                break
        else:
            return False
    return True


def rho(n, deadline):
    if n % 2 == 0:
        return 2
    rnd = random.Random(n & 0xFFFFFFFF)
    while time.time() < deadline:
        c = rnd.randrange(1, n)
        y = rnd.randrange(0, n)
        m, g, r, q = 128, 1, 1, 1
        while g == 1 and time.time() < deadline:
            x = y
            for _ in range(r):
                y = (y * y + c) % n
            k = 0
            while k < r and g == 1:
                ys = y
                for _ in range(min(m, r - k)):
                    y = (y * y + c) % n
                    q = q * abs(x - y) % n
                g = math.gcd(q, n)
                k += m
            r *= 2
        if g == n:
            g = 1
            while g == 1:
                ys = (ys * ys + c) % n
                g = math.gcd(abs(x - ys), n)
        if 1 < g < n:
            return g
    return None


_FACTOR_CACHE = {}


def factor(n, budget_s):
    """(prime factors found, unfactored cofactor or 1); cached per process"""
    if n in _FACTOR_CACHE and (_FACTOR_CACHE[n][1] == 1 or _FACTOR_CACHE[n][2] >= budget_s):
        return _FACTOR_CACHE[n][0], _FACTOR_CACHE[n][1]
    res = _factor(n, budget_s)
    _FACTOR_CACHE[n] = (res[0], res[1], budget_s)
    return res


def _factor(n, budget_s):
    deadline = time.time() + budget_s
    primes = set()
    rest = [n]
    unf = 1
    while rest:
        m = rest.pop()
        if m == 1:
            continue
        for p in range(2, 2000):
            while m % p == 0 and m > 1:
                primes.add(p)
                m //= p
        if m == 1:
            continue
        if is_prime(m):
            primes.add(m)
            continue
        d = rho(m, deadline)
        if d is None:
            unf *= m
            continue
        rest += [d, m // d]
    return sorted(primes), unf


def v2(n):
    s = 0
    while n % 2 == 0:
        n //= 2
        s += 1
    return s


def legendre(a, p):
    a %= p
    if a == 0:
        return 0
    return 1 if pow(a, (p - 1) // 2, p) == 1 else -1


# ------------------------------------------------------------------ Fp2 / curves (for BLS part)
class F2:
    """Fp[u]/(u^2 - nr)"""

    def __init__(self, p, nr):
        self.p, self.nr = p, nr % p

    def mul(self, a, b):
        p = self.p
        return ((a[0] * b[0] + self.nr * a[1] * b[1]) % p, (a[0] * b[1] + a[1] * b[0]) % p)

    def add(self, a, b):
        return ((a[0] + b[0]) % self.p, (a[1] + b[1]) % self.p)

    def sub(self, a, b):
        return ((a[0] - b[0]) % self.p, (a[1] - b[1]) % self.p)

    def pow(self, a, e):
        r = (1, 0)
        while e:
            if e & 1:
                r = self.mul(r, a)
            a = self.mul(a, a)
            e >>= 1
        return r

    def inv(self, a):
        p = self.p
        n = (a[0] * a[0] - self.nr * a[1] * a[1]) % p
        ni = pow(n, -1, p)
        return (a[0] * ni % p, (-a[1]) * ni % p)

    def is_square(self, a):
        if a == (0, 0):
            return True
        return self.pow(a, (self.p * self.p - 1) // 2) == (1, 0)

    def sqrt(self, a):
        # generic Tonelli-Shanks in Fp2 (order p^2 - 1)
        if a == (0, 0):
            return a
        if not self.is_square(a):
            return None
        n = self.p * self.p - 1
        s, t = v2(n), n >> v2(n)
        rnd = random.Random(7)
        while True:
            z = (rnd.randrange(self.p), rnd.randrange(self.p))
            if z != (0, 0) and not self.is_square(z):
                break
        c = self.pow(z, t)
        r = self.pow(a, (t + 1) // 2)
        tt = self.pow(a, t)
        m = s
        while tt != (1, 0):
            i, t2 = 0, tt
            while t2 != (1, 0):
                t2 = self.mul(t2, t2)
                i += 1
            b = c
            for _ in range(m - i - 1):
                b = self.mul(b, b)
            m = i
            c = self.mul(b, b)
            tt = self.mul(tt, c)
            r = self.mul(r, b)
        return r


def sw_add(F, P, Q, a_is_zero=True):
    """affine short Weierstrass (a = 0) over a field object with add/sub/mul/inv; None = infinity"""
    if P is None:
        return Q
    if Q is None:
        return P
    (x1, y1), (x2, y2) = P, Q
    if x1 == x2:
        if F.add(y1, y2) == F.zero:
            return None
        lam = F.mul(F.mul(F.three, F.mul(x1, x1)), F.inv(F.add(y1, y1)))
    else:
        lam = F.mul(F.sub(y2, y1), F.inv(F.sub(x2, x1)))
    x3 = F.sub(F.sub(F.mul(lam, lam), x1), x2)
    y3 = F.sub(F.mul(lam, F.sub(x1, x3)), y1)
    return (x3, y3)


def sw_mul(F, k, P):
    R = None
    while k:
        if k & 1:
            R = sw_add(F, R, P)
        P = sw_add(F, P, P)
        k >>= 1
    return R


class PrimeF:
    def __init__(self, p):
        self.p = p
        self.zero, self.three = 0, 3 % p

    def add(self, a, b):
        return (a + b) % self.p

    def sub(self, a, b):
        return (a - b) % self.p

    def mul(self, a, b):
        return a * b % self.p

    def inv(self, a):
        return pow(a, -1, self.p)


class QuadF(F2):
    def __init__(self, p, nr):
        super().__init__(p, nr)
        self.zero, self.three = (0, 0), (3 % p, 0)


# ------------------------------------------------------------------ the rule book
def check(dump, build, factor_budget_s=20):
    """returns (checks, violations, notes); each check is (name, rule kind)."""
    C = dump["constants"]
    model = dump["model"]
    viol = []
    checks = []
    notes = []

    q = X**4 - X**2 + 1
    p = (X - 1) ** 2 * q // 3 + X
    r = I(model["r"])
    assert is_prime(q) and is_prime(p) and is_prime(r)
    assert abs(4 * r - (q + 1)) ** 2 <= 4 * q, "4r outside the Hasse interval of q"
    assert I(model["q"]) == q and I(model["p"]) == p

    def bad(name, why, observed=None, expected=None):
        viol.append({"sig": f"C17:{name}", "what": f"{name}: {why}",
                     "detail": {"constant": name, "build": build, "observed": observed, "expected": expected}, "events": []})

    def equals(name, expected, transform=None):
        if name not in C:
            return
        checks.append((name, "equals"))
        obs = C[name]
        o = transform(obs) if transform else (I(obs) if isinstance(obs, str) else obs)
        if o != expected:
            bad(name, f"is {hex(o) if isinstance(o, int) else o}, recomputed value is {hex(expected) if isinstance(expected, int) else expected}",
                str(obs), hex(expected) if isinstance(expected, int) else str(expected))

    def satisfies(name, pred, why):
        if name not in C:
            return
        checks.append((name, "satisfies"))
        try:
            ok = pred(C[name])
        except Exception as ex:  # noqa: BLE001
            ok = False
            why = f"{why} (checker raised {ex!r})"
        if not ok:
            bad(name, f"does not satisfy: {why}", str(C[name]))

    for k in list(C.keys()):
        if k.endswith(" as an operand") or k.endswith(" as operands"):
            checks.append((k, "satisfies"))
            if C[k]:
                bad(k, "the constant object does not behave as the field element / group element it prints as under: " + ", ".join(C[k]), str(C[k]))
    # complete / partial factorisations of m-1
    fact = {}
    fq_primes, unf = factor(X, 10)
    a1, u1 = factor(X - 1, 10)
    a2, u2 = factor(X + 1, 10)
    assert unf == u1 == u2 == 1, "could not factor x, x-1, x+1"
    fact["Fq"] = (sorted(set(fq_primes + a1 + a2)), 1)  # q-1 = x^2 (x-1)(x+1)
    pr, ur = factor(r - 1, factor_budget_s)
    fact["Fr"] = (pr, ur)
    cof = ((X - 1) * q + 3) // 3  # p-1 = (x-1) * ((x-1)q+3)/3
    assert (X - 1) * cof == p - 1
    pp, up = factor(cof, factor_budget_s)
    fact["Fp"] = (sorted(set(a1 + pp)), up)
    for fname, (prs, u) in fact.items():
        notes.append(f"{fname}: generator tested against {len(prs)} prime factors of m-1; unfactored cofactor has {u.bit_length() if u > 1 else 0} bits"
                     + (" (complete factorisation)" if u == 1 else " (PARTIAL: generator rule is necessary, not sufficient)"))

    for fname, m, nb in (("Fq", q, 32), ("Fr", r, 32), ("Fp", p, 48)):
        s = v2(m - 1)
        t = (m - 1) >> s
        for pre in (f"{fname}::", f"{fname} PrimeField::"):
            suf = "_LIMBS" if pre.endswith("::") and "PrimeField" not in pre else ""
            equals(f"{pre}MODULUS{suf}", m)
            equals(f"{pre}MODULUS_MINUS_ONE_DIV_TWO{suf}", (m - 1) // 2)
            equals(f"{pre}MODULUS_BIT_SIZE", m.bit_length())
            equals(f"{pre}TRACE{suf}", t)
            equals(f"{pre}TRACE_MINUS_ONE_DIV_TWO{suf}", (t - 1) // 2)
        equals(f"{fname}::TWO_ADICITY", s)
        equals(f"{fname} FftField::TWO_ADICITY", s)
        equals(f"{fname}::FIELD_SIZE_POWER_OF_TWO", pow(2, 8 * nb, m))
        for z in ("::ZERO", " Field::ZERO", "::default()"):
            equals(f"{fname}{z}", 0)
        for o in ("::ONE", " Field::ONE"):
            equals(f"{fname}{o}", 1)
        equals(f"{fname} Field::characteristic()", m)
        equals(f"{fname} Field::extension_degree()", 1)
        prs, _u = fact[fname]

        def is_gen(v, m=m, prs=prs):
            g = I(v)
            return 0 < g < m and legendre(g, m) == -1 and all(pow(g, (m - 1) // l, m) != 1 for l in prs)

        def order_2s(v, m=m, s=s):
            w = I(v)
            return 0 < w < m and pow(w, 1 << (s - 1), m) == m - 1

        for nm in (f"{fname}::MULTIPLICATIVE_GENERATOR", f"{fname} FftField::GENERATOR"):
            satisfies(nm, is_gen, "a generator must be a non-residue with g^((m-1)/l) != 1 for every prime l | m-1")
        for nm in (f"{fname}::TWO_ADIC_ROOT_OF_UNITY", f"{fname} FftField::TWO_ADIC_ROOT_OF_UNITY"):
            satisfies(nm, order_2s, f"a primitive 2^{s}-th root of unity w has w^(2^{s - 1}) = -1")
        if f"{fname}::TWO_ADIC_ROOT_OF_UNITY" in C and f"{fname}::MULTIPLICATIVE_GENERATOR" in C:
            g, w = I(C[f"{fname}::MULTIPLICATIVE_GENERATOR"]), I(C[f"{fname}::TWO_ADIC_ROOT_OF_UNITY"])
            checks.append((f"{fname}::TWO_ADIC_ROOT_OF_UNITY == GENERATOR^TRACE", "equals"))
            if pow(g, t, m) != w:
                bad(f"{fname}::TWO_ADIC_ROOT_OF_UNITY", "is not MULTIPLICATIVE_GENERATOR^TRACE (the arkworks convention FftField documents)", hex(w), hex(pow(g, t, m)))
        satisfies(f"{fname}::QUADRATIC_NON_RESIDUE_TO_TRACE", order_2s, "a non-residue raised to the trace generates the 2-Sylow subgroup (order exactly 2^s)")
        for k in list(C.keys()):
            if k.startswith(f"{fname} type-path "):
                checks.append((k, "equals"))
                if C[k] is not True:
                    bad(k, "the constant reached through the type path (an inherent constant shadows the trait constant) differs from the trait constant")
        # optional mixed-radix FFT constants: either all absent, or a consistent triple: base b prime,
        # b^k | m-1, root = GENERATOR^((m-1)/(2^s b^k)) of exact order 2^s b^k (the FftField documentation)
        trip = [C.get(f"{fname} FftField::{x}", "absent") for x in ("SMALL_SUBGROUP_BASE", "SMALL_SUBGROUP_BASE_ADICITY", "LARGE_SUBGROUP_ROOT_OF_UNITY")]
        if "absent" not in trip:
            nm3 = f"{fname} FftField::LARGE_SUBGROUP_ROOT_OF_UNITY"
            checks.append((nm3, "satisfies"))
            sb, sk, sw = trip
            if (sb is None) != (sk is None) or (sb is None) != (sw is None):
                bad(nm3, "SMALL_SUBGROUP_BASE, SMALL_SUBGROUP_BASE_ADICITY and LARGE_SUBGROUP_ROOT_OF_UNITY must be all None or all Some", str(trip))
            elif sb is not None:
                bb_, kk_, ww_ = int(sb), int(sk), I(sw)
                big = (2 ** s) * (bb_ ** kk_)
                gname = f"{fname} FftField::GENERATOR"
                if not is_prime(bb_) or bb_ == 2 or kk_ < 1 or (m - 1) % big != 0:
                    bad(nm3, f"small subgroup {bb_}^{kk_} is not a prime power dividing (m-1)/2^s", str(trip))
                elif pow(ww_, big, m) != 1 or pow(ww_, big // 2, m) == 1 or pow(ww_, big // bb_, m) == 1:
                    bad(nm3, f"does not have exact order 2^{s} * {bb_}^{kk_}", hex(ww_))
                elif gname in C and pow(I(C[gname]), (m - 1) // big, m) != ww_:
                    bad(nm3, "is not GENERATOR^((m-1)/(2^s b^k)) (the convention FftField documents)", hex(ww_), hex(pow(I(C[gname]), (m - 1) // big, m)))
        nm = f"{fname} Field::SQRT_PRECOMP"
        if nm in C:
            checks.append((nm, "satisfies"))
            sp = C[nm]
            if sp["kind"] == "TonelliShanks":
                if sp["two_adicity"] != s:
                    bad(nm, f"two_adicity {sp['two_adicity']} != {s}")
                if I(sp["trace_of_modulus_minus_one_div_two"]) != (t - 1) // 2:
                    bad(nm, "trace_of_modulus_minus_one_div_two != (t-1)/2", sp["trace_of_modulus_minus_one_div_two"], hex((t - 1) // 2))
                if not order_2s(sp["quadratic_nonresidue_to_trace"]):
                    bad(nm, "quadratic_nonresidue_to_trace does not have order 2^s")
            elif sp["kind"] == "Case3Mod4":
                if m % 4 != 3:
                    bad(nm, "Case3Mod4 declared but the modulus is not 3 mod 4")
                if I(sp["modulus_plus_one_div_four"]) != (m + 1) // 4:
                    bad(nm, "modulus_plus_one_div_four != (m+1)/4", sp["modulus_plus_one_div_four"], hex((m + 1) // 4))
            else:
                bad(nm, f"unexpected kind {sp['kind']}")
    # the same constant published twice (inherent const and arkworks trait const) must agree
    for fname in ("Fq", "Fr", "Fp"):
        for inh, tr in (("MODULUS_LIMBS", "PrimeField::MODULUS"), ("MODULUS_MINUS_ONE_DIV_TWO_LIMBS", "PrimeField::MODULUS_MINUS_ONE_DIV_TWO"),
                        ("MODULUS_BIT_SIZE", "PrimeField::MODULUS_BIT_SIZE"), ("TRACE_LIMBS", "PrimeField::TRACE"),
                        ("TRACE_MINUS_ONE_DIV_TWO_LIMBS", "PrimeField::TRACE_MINUS_ONE_DIV_TWO"),
                        ("MULTIPLICATIVE_GENERATOR", "FftField::GENERATOR"), ("TWO_ADICITY", "FftField::TWO_ADICITY"),
                        ("TWO_ADIC_ROOT_OF_UNITY", "FftField::TWO_ADIC_ROOT_OF_UNITY"), ("ZERO", "Field::ZERO"), ("ONE", "Field::ONE")):
            a_, b_ = f"{fname}::{inh}", f"{fname} {tr}"
            if a_ in C and b_ in C:
                checks.append((f"{b_} == {a_}", "equals"))
                if C[a_] != C[b_]:
                    bad(b_, f"differs from the inherent constant {a_} it re-publishes", str(C[b_]), str(C[a_]))
        sp = C.get(f"{fname} Field::SQRT_PRECOMP")
        if sp and sp.get("kind") == "TonelliShanks" and f"{fname}::QUADRATIC_NON_RESIDUE_TO_TRACE" in C:
            checks.append((f"{fname} Field::SQRT_PRECOMP.quadratic_nonresidue_to_trace == {fname}::QUADRATIC_NON_RESIDUE_TO_TRACE", "equals"))
            if sp["quadratic_nonresidue_to_trace"] != C[f"{fname}::QUADRATIC_NON_RESIDUE_TO_TRACE"]:
                bad(f"{fname} Field::SQRT_PRECOMP", "quadratic_nonresidue_to_trace differs from the inherent constant")
    if "decaf TECurveConfig::GENERATOR" in C and "Element::GENERATOR (X,Y,Z,T)" in C:
        checks.append(("decaf TECurveConfig::GENERATOR == Element::GENERATOR", "equals"))
        Xc, Yc, Zc, _ = (I(v) for v in C["Element::GENERATOR (X,Y,Z,T)"])
        gx_, gy_ = (I(v) for v in C["decaf TECurveConfig::GENERATOR"])
        if Zc and ((Xc * pow(Zc, -1, q) - gx_) % q or (Yc * pow(Zc, -1, q) - gy_) % q):
            bad("decaf TECurveConfig::GENERATOR", "differs from Element::GENERATOR")
    equals("Fp::MINUS_ONE", p - 1)
    satisfies("Fp::QUADRATIC_NON_RESIDUE", lambda v: legendre(I(v), p) == -1, "must be a quadratic non-residue mod p")

    # ---- decaf377 curve
    a, d = q - 1, 3021
    zeta_sage = I(model["zeta_sage"])
    satisfies("decaf377::ZETA", lambda v: legendre(I(v), q) == -1, "zeta must be a quadratic non-residue")
    equals("decaf377::ZETA", zeta_sage)
    assert legendre(d, q) == -1 and legendre(a * d % q, q) == -1
    gx, gy = (I(v) for v in model["generator_from_decodeSpec(8)"])

    def on_te(x, y):
        return (a * x * x + y * y) % q == (1 + d * x * x % q * y * y) % q

    assert on_te(gx, gy)
    if "Element::GENERATOR (X,Y,Z,T)" in C:
        checks.append(("Element::GENERATOR (X,Y,Z,T)", "satisfies"))
        Xc, Yc, Zc, Tc = (I(v) for v in C["Element::GENERATOR (X,Y,Z,T)"])
        if Zc == 0 or (Xc * Yc - Zc * Tc) % q != 0:
            bad("Element::GENERATOR (X,Y,Z,T)", "violates Z != 0 and X*Y = Z*T (B_T = B_X*B_Y)")
        else:
            zi = pow(Zc, -1, q)
            x_, y_ = Xc * zi % q, Yc * zi % q
            if not on_te(x_, y_):
                bad("Element::GENERATOR (X,Y,Z,T)", "is not on the curve")
            elif (x_, y_) not in ((gx, gy), ((-gx) % q, (-gy) % q)):
                bad("Element::GENERATOR (X,Y,Z,T)", "is not decodeSpec(8) (up to the coset)", [hex(x_), hex(y_)], [hex(gx), hex(gy)])
    equals("Element::GENERATOR encoding", "08" + "00" * 31, transform=lambda v: v)
    if "Element::IDENTITY (X,Y,Z,T)" in C:
        checks.append(("Element::IDENTITY (X,Y,Z,T)", "satisfies"))
        Xc, Yc, Zc, Tc = (I(v) for v in C["Element::IDENTITY (X,Y,Z,T)"])
        if not (Xc == 0 and Tc == 0 and Zc != 0 and (Yc - Zc) % q == 0):
            bad("Element::IDENTITY (X,Y,Z,T)", "is not (0 : 1 : 1 : 0) up to scaling")
    equals("decaf TECurveConfig::COEFF_A", a)
    equals("decaf TECurveConfig::COEFF_D", d)
    equals("decaf TECurveConfig::mul_by_a(5)", (a * 5) % q)
    if "decaf TECurveConfig::GENERATOR" in C:
        checks.append(("decaf TECurveConfig::GENERATOR", "equals"))
        x_, y_ = (I(v) for v in C["decaf TECurveConfig::GENERATOR"])
        if (x_, y_) not in ((gx, gy), ((-gx) % q, (-gy) % q)):
            bad("decaf TECurveConfig::GENERATOR", "is not decodeSpec(8)", [hex(x_), hex(y_)], [hex(gx), hex(gy)])
    # Montgomery form of a*x^2 + y^2 = 1 + d*x^2*y^2:  A = 2(a+d)/(a-d), B = 4/(a-d)
    amd_inv = pow((a - d) % q, -1, q)
    equals("decaf MontCurveConfig::COEFF_A", 2 * (a + d) * amd_inv % q)
    equals("decaf MontCurveConfig::COEFF_B", 4 * amd_inv % q)
    # the decaf config deliberately declares cofactor 1 (the quotient group has prime order)
    if "decaf CurveConfig::COFACTOR" in C:
        checks.append(("decaf CurveConfig::COFACTOR_INV * COFACTOR == 1 (mod r)", "satisfies"))
        h = I(C["decaf CurveConfig::COFACTOR"])
        hi = I(C["decaf CurveConfig::COFACTOR_INV"])
        if h * hi % r != 1:
            bad("decaf CurveConfig::COFACTOR_INV", "COFACTOR * COFACTOR_INV != 1 mod r", hex(hi))
        equals("decaf CurveConfig::COFACTOR", 1)

    # ---- BLS12-377 engine constants
    if "bls Bls12Config::X" in C:
        equals("bls Bls12Config::X", X)
        equals("bls Bls12Config::X_IS_NEGATIVE", False, transform=lambda v: v)
        equals("bls Bls12Config::TWIST_TYPE", "D", transform=lambda v: v)
        nr = I(C["bls Fp2Config::NONRESIDUE"])
        satisfies("bls Fp2Config::NONRESIDUE", lambda v: legendre(I(v), p) == -1, "Fp2 non-residue must be a non-square in Fp")
        F = QuadF(p, nr)
        equals("bls Fp2Config::FROBENIUS_COEFF_FP2_C1", [pow(nr, (p**k - 1) // 2, p) for k in range(2)], transform=lambda v: [I(x) for x in v])
        xi = tuple(I(x) for x in C["bls Fp6Config::NONRESIDUE"])
        checks.append(("bls Fp6Config::NONRESIDUE", "satisfies"))
        n2 = p * p - 1
        if F.pow(xi, n2 // 3) == (1, 0) or F.pow(xi, n2 // 2) == (1, 0):
            bad("bls Fp6Config::NONRESIDUE", "must be neither a cube nor a square in Fp2 for the tower Fp2 -> Fp6 -> Fp12 to be fields")
        tup = lambda v: [tuple(I(x) for x in e) for e in v]  # noqa: E731
        equals("bls Fp6Config::FROBENIUS_COEFF_FP6_C1", [F.pow(xi, (p**k - 1) // 3) for k in range(6)], transform=tup)
        equals("bls Fp6Config::FROBENIUS_COEFF_FP6_C2", [F.pow(xi, (2 * p**k - 2) // 3) for k in range(6)], transform=tup)
        equals("bls Fp12Config::FROBENIUS_COEFF_FP12_C1", [F.pow(xi, (p**k - 1) // 6) for k in range(12)], transform=tup)
        equals("bls Fp12Config::NONRESIDUE", [(0, 0), (1, 0), (0, 0)], transform=tup)
        # G1: y^2 = x^3 + 1 over Fp, #E = p + 1 - t with t = x + 1
        equals("bls G1 SWCurveConfig::COEFF_A", 0)
        equals("bls G1 SWCurveConfig::COEFF_B", 1)
        n1 = p + 1 - (X + 1)
        assert n1 % q == 0
        h1 = n1 // q
        assert h1 == (X - 1) ** 2 // 3
        equals("bls G1 CurveConfig::COFACTOR", h1)
        satisfies("bls G1 CurveConfig::COFACTOR_INV", lambda v: I(v) * h1 % q == 1, "COFACTOR * COFACTOR_INV = 1 mod q")
        PF = PrimeF(p)
        g1 = C["bls G1 SWCurveConfig::GENERATOR"]
        checks.append(("bls G1 SWCurveConfig::GENERATOR", "satisfies"))
        x1, y1 = I(g1[0]), I(g1[1])
        if g1[2] or (y1 * y1 - x1**3 - 1) % p != 0:
            bad("bls G1 SWCurveConfig::GENERATOR", "is not a finite point of y^2 = x^3 + 1")
        elif sw_mul(PF, q, (x1, y1)) is not None:
            bad("bls G1 SWCurveConfig::GENERATOR", "does not have order q")
        # G2: D-twist y^2 = x^3 + 1/xi over Fp2
        b2 = tuple(I(x) for x in C["bls G2 SWCurveConfig::COEFF_B"])
        equals("bls G2 SWCurveConfig::COEFF_A", (0, 0), transform=lambda v: tuple(I(x) for x in v))
        checks.append(("bls G2 SWCurveConfig::COEFF_B", "equals"))
        if F.mul(b2, xi) != (1, 0):
            bad("bls G2 SWCurveConfig::COEFF_B", "is not COEFF_B(G1) / xi (D-type twist)", [hex(v) for v in b2])
        g2 = C["bls G2 SWCurveConfig::GENERATOR"]
        gx2, gy2 = tuple(I(x) for x in g2[0]), tuple(I(x) for x in g2[1])
        checks.append(("bls G2 SWCurveConfig::GENERATOR", "satisfies"))
        lhs = F.mul(gy2, gy2)
        rhs = F.add(F.mul(gx2, F.mul(gx2, gx2)), b2)
        if g2[2] or lhs != rhs:
            bad("bls G2 SWCurveConfig::GENERATOR", "is not a finite point of the twist")
        elif sw_mul(F, q, (gx2, gy2)) is not None:
            bad("bls G2 SWCurveConfig::GENERATOR", "does not have order q")
        h2 = I(C["bls G2 CurveConfig::COFACTOR"])
        checks.append(("bls G2 CurveConfig::COFACTOR", "satisfies"))
        n2c = h2 * q
        hasse_ok = abs(n2c - (p * p + 1)) <= 2 * p
        ok = hasse_ok
        rnd = random.Random(12345)
        tried = 0
        while ok and tried < 3:
            xx = (rnd.randrange(p), rnd.randrange(p))
            yy2 = F.add(F.mul(xx, F.mul(xx, xx)), b2)
            yy = F.sqrt(yy2)
            if yy is None:
                continue
            tried += 1
            if sw_mul(F, n2c, (xx, yy)) is not None:
                ok = False
        if not ok:
            bad("bls G2 CurveConfig::COFACTOR", "COFACTOR * q is not the order of the twist (Hasse bound / annihilation of random points)", hex(h2))
        satisfies("bls G2 CurveConfig::COFACTOR_INV", lambda v: I(v) * h2 % q == 1, "COFACTOR * COFACTOR_INV = 1 mod q")
    return checks, viol, notes
