"""Per-property configuration of the driver (builds to run, evidence and manifest texts)."""

COMMON_ASSUMPTIONS = [
    "the BigUint shadow model (num-bigint arithmetic, transcription of ristretto.sage's unoptimised spec functions) "
    "is right; it is self-tested on every run against the repository's sage vectors (16 generator multiples, "
    "8 Elligator vectors), r*G = identity and Miller-Rabin primality of p, q, r",
    "verdicts concern the executions listed under coverage only (sampled universal quantifier)",
    "harness builds decaf377 from /repo's working tree with --cfg decaf377_verif (hooks only add accessors / a hint override)",
    "feature configurations exercised: arkworks+r1cs, minimal; plus (thorough tier, and the quick tier of C01/C03/C08/C09/C10/C11/C12/C13/C15/C17) "
    "arkworks+r1cs+parallel+u32_backend with a 3-thread rayon pool and minimal+std+u32_backend",
]
DISTINCT = " distinct_nontrivial counts distinct hashed case tuples per build run (summed over runs)."

PROPS = {
    "C01": {
        "config_runs_quick": [("arkx", "C01"), ("minx", "C01")], "config_runs": [('arkx', 'C01'), ('minx', 'C01')],
        "builds": ["ark", "min"], "level": "exploration", "design_ref": "DESIGN.md §3 C01",
        "monitor_profile": [("ark", "C01"), ("min", "C01")],
        "monitor_profile_quick": [("ark", "C01"), ("min", "C01")],
        "technique": "runtime round-trip monitor with a BigUint spec decoder/encoder as referee, over a shadowed element zoo "
                     "(both coset members, projective rescalings via the coordinate hook), registers of random straight-line "
                     "programs, and structured + random 32-byte strings",
        "rule": "forward: element zoo (constants, small-s decodes, Elligator images, multiples, both coset members, rescalings) and "
                "every register of random operation programs -> decode(encode(E)) must succeed, be == E and denote the model "
                "element; backward: produced encodings, structured near-misses (s+kq aliases, q-s, all 256 bit flips, top bits, "
                "boundaries) and random strings -> any accepted string must re-encode to itself and denote decodeSpec. "
                "Also: a string decodeSpec accepts but the library rejects is put through the forward check; E and -E must "
                "encode differently and decode to unequal values; stream decoders through readers with partial progress; "
                "near-valid rejects (non-square discriminant, candidate on the curve), special field values, fold-collision "
                "aliases; object-lifecycle programs (round trip of deserialised / converted / in-place mutated objects). "
                "Trivial: identity representatives (forward) / strings the spec rejects (backward)." + DISTINCT,
        "text": "Reference-model round-trip monitor over executions of the real encoder/decoder in both builds; elements are "
                "products of arithmetic and arbitrary representatives, not only fresh decodes. Sampled, not exhaustive over 2^256.",
        "note": "trusted: BigUint model incl. encodeSpec/decodeSpec (self-tested on the sage vectors each run), coordinate hook.",
    },
    "C02": {
        "config_runs_quick": [], "config_runs": [('arkx', 'C02'), ('minx', 'C02')],
        "builds": ["ark", "min"], "level": "exploration", "design_ref": "DESIGN.md §3 C02",
        "technique": "runtime differential monitor: every decoding entry point against the BigUint specification decoder "
                     "(verdict, error kind, element) and against each other, on structured near-misses and all slice lengths",
        "rule": "strings: for ~100 valid s their s+q / s+2q aliases, q-s, all 256 single-bit flips, top-three-bit variants, "
                "s+1, s+2; boundary values q-1, q, q+1, 2^253, 2^255, 2^256-1, 1; random and random-masked strings; slices of "
                "length 0..=80 (+100,128,200,1000). Every entry point (11 in the arkworks build incl. stream deserialisers of "
                "[further string classes: lengths aliasing 32 under truncating casts (32+256k, 32+2^k), textual renderings "
                "(hex / decimal as bytes), near-valid rejects, field-zoo values, fold-collision aliases s+q of valid s] "
                "Element/AffinePoint/Encoding, 7 in the minimal build) must answer exactly as decodeSpec o canonical parse. "
                "A case = one string; none is trivial." + DISTINCT,
        "rule_more": "placement pass: the same bytes as a sub-slice at each of the 16 distances from a 16-byte boundary (surroundings zero / a valid encoding repeated) and as an Encoding inside a repr(C) record at each distance; every slice- and reference-taking entry point must answer as for the bytes in a buffer of their own.",
        "text": "Specification-decoder monitor: accept/reject verdict, error kind and decoded element of all decoding entry points "
                "are compared with an independent transcription of decodeSpec on hostile strings. Compress::No / Validate::No modes "
                "are unimplemented!() for every input and deliberately not exercised.",
        "note": "trusted: BigUint decodeSpec (self-tested). Stream readers: a short reader is a length error, a longer one is "
                "judged on its first 32 bytes and must consume exactly 32.",
    },
    "C03": {
        "config_runs_quick": [("arkx", "C03"), ("minx", "C03")], "config_runs": [('arkx', 'C03'), ('minx', 'C03')],
        "builds": ["ark", "min"], "level": "exploration", "design_ref": "DESIGN.md §3 C03",
        "technique": "runtime monitor comparing every encoder (16 in the arkworks build, 6 in the minimal one) with BigUint encodeSpec "
                     "on all representations of an element, plus all-pairs injectivity checks",
        "rule": "every zoo element and program register, each as both coset members x projective rescalings, through every encoder "
                "(vartime_compress, field form, From impls, CanonicalSerialize of Element/AffinePoint/Encoding, Debug/Display hex, "
                "ToConstraintField): bytes must equal encodeSpec(model element), top three bits clear; all pairs inside batches: "
                "== <=> bytes equal <=> model equal. Trivial: identity representatives." + DISTINCT,
        "rule_more": "Round-6 classes: each projective coordinate in turn equal to 1, -1, 2, R, R^-1, R^-2 with Z != 1; rescalings that make the encoder's inverse-square-root argument such a constant. plus uncompressed / alternate-format ({:#?}) encoders (a panic of an unimplemented mode is counted, bytes must be canonical), "
                     "and object-lifecycle programs: persistent Element / AffinePoint objects from 16 constructors, mutated in place, "
                     "every encoder against encodeSpec of the object's actual coordinates, == objects must encode equally. Encoding == Encoding must be byte equality (all single-bit neighbours, valid pairs differing in one high bit).",
        "text": "Reference-encoder monitor over every representation reachable by arithmetic or constructed through the hook.",
        "note": "trusted: BigUint encodeSpec (self-tested), coordinate hook.",
    },
    "C04": {
        "config_runs_quick": [], "config_runs": [('arkx', 'C04'), ('minx', 'C04')],
        "builds": ["ark", "min"], "level": "exploration", "design_ref": "DESIGN.md §3 C04",
        "monitor_profile": [("ark", "C04"), ("min", "C04")],
        "monitor_profile_quick": [("ark", "C04"), ("min", "C04")],
        "technique": "runtime reference-model monitor (shadow BigUint group law) over a form catalogue x hostile operand zoo + random "
                     "straight-line programs; structural-invariant hook on every result",
        "rule": "every catalogued operator form (name listed under forms) x operand-class matrix (10 partner relations "
                "x shadowed element zoo incl. both coset members and projective rescalings), sums over iterators, "
                "algebraic laws through the library's own ==, and random straight-line programs mixing all forms; "
                "each result is judged against the model group law (structural invariant via coordinate hook, "
                "denotation up to the coset, and vartime_compress bytes == encodeSpec). A case is the tuple "
                "[also: sums of length 31..1025, nested sums (re-entrancy), planted equal / opposite / other-member neighbours, "
                "object-lifecycle programs with in-place forms on persistent objects, monitor profile in both tiers] "
                "(form, model operands, projective scalings); trivial = all operands are identity representatives." + DISTINCT,
        "text": "Reference-model monitor over executions of the real operator impls: every catalogued form of add/sub/neg/double/sum "
                "in both builds is run on an operand-class matrix (identity, 2-torsion representative, P with -P, P with itself, both "
                "coset members, projective rescalings) and inside random straight-line programs; every result is compared with the "
                "textbook twisted-Edwards law computed in an independent BigUint model. Held on the executions counted; not a proof.",
        "note": "trusted: the BigUint model (self-tested against the repo's sage vectors on every run), the coordinate hook "
                "accessors, rustc. The structured operand-class x form matrix is exhaustive over itself; operands are sampled.",
    },
    "C05": {
        "config_runs_quick": [], "config_runs": [('arkx', 'C05'), ('minx', 'C05')],
        "builds": ["ark", "min"], "level": "exploration", "design_ref": "DESIGN.md §3 C05",
        "monitor_profile": [("min", "C05")],
        "monitor_profile_quick": [("min", "C05")],
        "technique": "runtime reference-model monitor: every scalar-multiplication form against model double-and-add by the integer "
                     "scalar (no reduction), scalar zoo x element classes, module laws, MSM sizes across window boundaries, order checks",
        "rule": "scalar zoo as integers (0,1,2,r-1,(r+-1)/2, 2^k, all-ones limbs, r, r+1, 2r, 2^256-1, 2^320, 2^512-1, r^2, random) x "
                "element classes (G, P, other coset member, identities, rescaled) x every Mul/MulAssign form, mul_bigint, "
                "scalar_mul(_vartime) with extra leading-zero limbs and the empty slice; r*P = identity for every zoo element; "
                "additivity/multiplicativity laws; MSM forms at sizes 0..=100 (thorough: 1000). Trivial: identity operand or k = 0." + DISTINCT,
        "rule_more": "Also scalars whose internal form is short / has empty limbs, and base/scalar coincidences (short coordinate +-c x scalars 0..8, c-2..c+2, negatives, two-limb folds). scalar zoo also holds recoding runs (window digits 2^(w-1)-1, 2^(w-1), 2^w-1 for w <= 8 in every limb) and ladder "
                     "collisions ((k mod 2^j) = +-2^j mod r; prefixes c*r+delta), MSM through lazy / nested iterators. Mismatched-length MSM (prefix semantics, msm refuses), planted repeated points.",
        "text": "Reference-model monitor: the k-fold sum is computed independently by the integer k, so the group order is checked, "
                "not assumed.",
        "note": "trusted: BigUint model (projective double-and-add validated against the affine law in the self-test).",
    },
    "C06": {
        "config_runs_quick": [], "config_runs": [('arkx', 'C06'), ('minx', 'C06')],
        "builds": ["ark", "min"], "level": "exploration", "design_ref": "DESIGN.md §3 C06",
        "monitor_profile": [("ark", "C06")],
        "technique": "runtime validity monitor on every public constructor / sampler / deserialiser / conversion: library round trip "
                     "plus model membership in 2E (r*P identity) through the coordinate hook; hostile byte strings and degenerate RNG streams",
        "rule": "from_random_bytes on the byte-string zoo (lengths 0..=200, canonical / non-canonical values, arkworks-style and "
                "decaf-style encodings of valid points, random 31/32/33/48/64-byte strings); samplers under ChaCha, all-zero, all-ones, "
                "counter and short-period RNGs (budgeted: a sampler that produces nothing within 64 KiB is counted, not judged); "
                "constants, Default, zero(), generator(); deserialisers, into_affine/into_group, normalize_batch, "
                "batch_convert_to_mul_base, clear_cofactor, mul_by_cofactor_to_group on program registers; outputs of decode and "
                "hash-to-group. None is trivial." + DISTINCT,
        "rule_more": "Also RNG streams that spell a field-zoo value (canonical / internal-form / 48- and 64-byte / big-endian / after one rejected draw). plus stuck-then-release RNG streams, container deserialisation (Vec / array / tuple / Option), batches with related Z "
                     "coordinates (product 1, sum 0, equal, +-1), long batches (to 5000; thorough 16385), outputs of every decoding entry "
                     "point on the hostile decoder strings.",
        "text": "Invariant monitor: every element handed out by a public constructor must round-trip through its encoding and lie in "
                "the group according to the model.",
        "note": "trusted: BigUint model scalar multiplication for the r*P test; minimal build exposes only constants, decode and Elligator.",
    },
    "C07": {
        "config_runs_quick": [], "config_runs": [('arkx', 'C07'), ('minx', 'C07')],
        "builds": ["ark", "min"], "level": "exploration", "design_ref": "DESIGN.md §3 C07",
        "monitor_profile": [("ark", "C07"), ("min", "C07")],
        "technique": "runtime reference-model monitor: encode_to_curve / hash_to_curve against the unoptimised elligatorSpec "
                     "(Euler criterion, Tonelli-Shanks, explicit divisions) on the full field zoo + random inputs",
        "rule": "r0 over the structured Fq zoo (0, +-1, 2^k, p-2^k, limb patterns, Montgomery artefacts, roots of unity of every "
                "order 2^k, small ints) + random; each judged against elligatorSpec(r0), map(r0) == map(-r0), output in 2E (sampled); "
                "both branches (n1 square / non-square) must be reached; two-input hash against map(a)+map(b) incl. a=b, a=-b. "
                "Elligator collisions: all preimages of sampled images by model-side inversion of the map; pairs with equal "
                "image (expect 2P) and opposite image (expect identity). "
                "Trivial: r0 = 0." + DISTINCT,
        "rule_more": "engineered r: r0 = sqrt(v/zeta) for every field-zoo value v that has one (limb patterns, internal-form extremes, small-order elements and quotient boundaries placed at r = zeta*r0^2, the value the map works on); the inverse-square-root argument equal to the Montgomery constants.",
        "text": "Reference-model monitor against an independent transcription of the specification's unoptimised map.",
        "note": "trusted: BigUint elligatorSpec (self-tested on the 8 sage vectors). den = 0 in the spec would be logged as "
                "spec-undefined, never judged (it is unreachable).",
    },
    "C08": {
        "config_runs_quick": [("arkx", "C08"), ("minx", "C08")], "config_runs": [('arkx', 'C08'), ('minx', 'C08')],
        "builds": ["ark", "min"], "level": "exploration", "design_ref": "DESIGN.md §3 C08",
        "technique": "runtime coherence monitor: all pairs inside families of equal-but-differently-represented elements "
                     "(== vs encoding vs model vs Hash with DefaultHasher and a byte-recording hasher) and all identity predicates on "
                     "every representation of the identity",
        "rule": "for every zoo element P: family {P, other coset member, rescalings, -(-P), (r-1)*(-P), P+Q-Q, 2P-P, decode(encode), "
                "affine round trips} plus unequal elements; identity family {IDENTITY, default, zero, (0,-1), lambda*(0,+-1), "
                "Q+(-1)Q, Q-Q, 0*Q, r*Q, decode(0)}; all ordered pairs: == <=> equal encodings <=> model equal, equal => equal "
                "hashes (Element and AffinePoint); every identity predicate must be all-true on the identity family and all-false "
                "elsewhere; same on program registers. No case is trivial." + DISTINCT,
        "rule_more": "plus != against ==, hashes of containers ([T], Vec, arrays, tuples, Option), coordinates engineered to have "
                     "fold-symmetric / all-ones / zero Montgomery limbs, object-lifecycle programs (==, Hash, identity predicates over "
                     "all register pairs after in-place mutation).",
        "text": "Coherence monitor over pairs that compare equal but have different internal representatives.",
        "note": "only `equal => equal hash` is demanded; hash values are never compared with anything fixed. Minimal build: == / "
                "is_identity part (it has no Hash / Zero).",
    },
    "C09": {
        "config_runs_quick": [('arkx', 'C09'), ('minx', 'C09')], "config_runs": [('arkx', 'C09'), ('minx', 'C09')],
        "builds": ["ark", "min"], "level": "exploration", "design_ref": "DESIGN.md §3 C09",
        "technique": "runtime contract monitor with chosen 2-primary discrete logs: the workload constructs ratios g^(e/M) * u^(2^47) "
                     "so that every value of every 8-bit window of e and of -e (all table rows) occurs; Euler-criterion oracle",
        "rule": "ratios whose 2-primary exponent e enumerates every value of every 8-bit window at offsets 0,7,8,...,40 (and of -e), "
                "all-zero / all-ones / single-digit / carry patterns, pure roots of unity of every order 2^k, ratio 1, zeta^k, zero "
                "operands, zoo pairs and random pairs; (num,den) = (ratio*den, den) and (1, 1/ratio). Flag must equal Euler(num/den), "
                "y^2*den must equal num resp. zeta*num; window coverage (measured model-side by a discrete log of what was actually "
                "presented) must be complete or the run is inconclusive. Field::sqrt/legendre of Fq, Fr, Fp against Euler. "
                "sqrt_in_place: root on Some, receiver unchanged on None. Zoo incl. values sharing limbs with p, fold-symmetric "
                "limb patterns; extra feature configurations (parallel with a 3-thread pool, minimal+std) in both tiers. "
                "Trivial: num = den = 0." + DISTINCT,
        "text": "Contract monitor whose inputs are engineered to hit every lookup-table row of the table-driven square root; the "
                "minimal build's constant-time Tonelli-Shanks gets the same inputs.",
        "note": "trusted: BigUint Euler criterion; the sign of y is free and never compared.",
        "monitor_profile": [("ark", "C09")],
        # thorough: Miri over the racing first use of the lazily built tables (3 threads per shard)
        "miri": [("ark", "lazy", 16, 6), ("min", "curve", 4, 2)],
        # fresh processes in which 16 threads race into their first sqrt_ratio call
        "fresh_process_repeats": [("ark", "lazyinit", 12, 300)],
    },
    "C10": {
        "config_runs_quick": [("arkx", "C10"), ("minx", "C10")], "config_runs": [('arkx', 'C10'), ('minx', 'C10')],
        "builds": ["ark", "min"], "level": "exploration", "design_ref": "DESIGN.md §3 C10",
        "monitor_profile": [("ark", "C10"), ("min", "C10")],
        "monitor_profile_quick": [("ark", "C10"), ("min", "C10")],
        "technique": "runtime reference-model monitor: every operator/method form of Fq, Fr, Fp (both backends, plus the public 32-bit Fr "
                     "backend inside the arkworks build) against BigUint arithmetic on structured limb-pattern zoos",
        "rule": "per field: 24 operator forms (+,-,*,/ x value/&/&mut x binary/assign), inherent add/sub/mul/neg/square/inverse, "
                "Field/PrimeField methods (arkworks build), Sum/Product/sum_of_products over lists of length 0,1,2,3,17, pow/power with "
                "0..=5 exponent limbs, subtle select/assign/swap/ct_eq for Fq; operands: all pairs of a 20-element core zoo x all forms, "
                "a seeded strided sample (about 250k pairs per field, thorough 4M) of zoo x zoo pairs (0,1,2,p-1,p-2,(p+-1)/2, every 2^k, 2^k-1, p-2^k, limb "
                "patterns, R, R^2, R^-1, roots of unity, values sharing limbs with p, recoding runs, decimal structure), random pairs. Division by zero panicking is documented behaviour and only "
                "counted. Trivial: all operands in {0,1}." + DISTINCT,
        "rule_more": "Also elements of every small multiplicative order n | p-1 (n <= 1024) and quotient boundaries floor(j*p/k) for the small multipliers of the curve formulas. zoo additions: divstep worst-case inputs (beam search: ~2.4*bits iterations), Montgomery extremes, limb-fold symmetric "
                     "values, recoding runs, decimal structure, modulus-limb sharing; resumable (non-fused) iterators; fold lists of "
                     "length 31..1025 with extreme contents; from_base_prime_field_elems arity. Exponents k(p-1)+-1 with bases 0, +-1, 2 and 6..17-limb exponents; &mut operands must be left unchanged; 2-adic relations with p.",
        "text": "Reference-model monitor over the complete form catalogue; results are compared as canonical bytes.",
        "note": "trusted: num-bigint. Fq::SENTINEL and non-canonical from_montgomery_limbs inputs are outside the quantifier.",
    },
    "C11": {
        "config_runs_quick": [("arkx", "C11"), ("minx", "C11")], "config_runs": [('arkx', 'C11'), ('minx', 'C11')],
        "builds": ["ark", "min"], "level": "exploration", "design_ref": "DESIGN.md §3 C11",
        "technique": "runtime monitor comparing every serialiser / checked parser / reducer / conversion of the three fields with the "
                     "integer model on hostile byte strings (lengths 0..=200, p-1, p, p+1, aliases v+kp, high bits) and flag types",
        "rule": "serialisers (to_bytes(_le), Debug hex, CanonicalSerialize compressed/uncompressed/with flags, into_bigint, BigUint, "
                "Display) must all emit the canonical LE integer; checked parsers (from_bytes_checked, deserialize_*, from_bigint) must "
                "accept exactly integers < p; reducers (from_le/be_bytes_mod_order, From<BigUint>, from_random_bytes) must equal the "
                "integer mod p for every length; flags EmptyFlags/TEFlags/SWFlags round-trip value and flags; Ord = integer order on "
                "pairs differing in one limb; Hash consistent with ==; From<u8..u128,bool>; FromStr/Display; samplers in range. "
                "Non-standard flag types (4, 8 bits: extra byte; 9 bits: refused); strings beyond 2048 bits, sparse long strings "
                "with zero / k*p chunks, fold-collision aliases, fold-vanishing pairs for == / Ord / Hash. "
                "Flag types of every width 1..8; Display under format specifications (precision, width, fill, sign). "
                "Trivial: values 0/1, the empty string." + DISTINCT,
        "text": "Integer-model monitor over all conversions; the minimal build covers the inherent subset on the fiat backend.",
        "note": "FromStr is specified as digits -> integer mod p, anything else Err (ark-ff behaviour); Display of zero may be empty.",
        "monitor_profile": [("ark", "C11"), ("min", "C11")],
        # thorough: Miri over the one `unsafe` of the crate (from_utf8_unchecked in the Debug impls)
        "miri": [("ark", "debug", 8, 0), ("min", "debug", 8, 0)],
    },
    "C12": {
        "config_runs_quick": [('arkx', 'transcript'), ('minx', 'transcript'), ('minn', 'transcript')], "config_runs": [('arkx', 'transcript'), ('minx', 'transcript'), ('arkn', 'transcript'), ('minn', 'transcript')],
        "builds": ["ark", "min"], "level": "exploration", "design_ref": "DESIGN.md §3 C12",
        "subcommands": ["transcript"], "post": "c12_compare",
        "technique": "offline checker over recorded event logs: both builds execute the same seeded operation stream (16 shards) and "
                     "write one transcript line per operation; the driver diffs the transcripts line by line",
        "rule": "one line per executed operation: field parse/reduce/arithmetic forms/inverse/cmp/hash/Debug/sum/product/rand/from-int for "
                "Fq, Fr, Fp on byte and value zoos; decode verdict + re-encoding for ~6k structured and random strings; slice lengths; "
                "encode_to_curve, hash_to_curve, sqrt_ratio (as flag and y^2); group programs over the 12 shared binary forms, neg, "
                "double, 10 shared scalar forms and long-integer multiplication, each step logged as result encoding + identity/equality "
                "bits. evaluations = lines compared; distinct_nontrivial = distinct transcript lines (measured by hashing) of one build.",
        "rule_more": "structured sections: all core-zoo pairs and Montgomery limb neighbours with cmp/eq/ne/hash lines, engineered square-root "
                     "exponents, Elligator collisions, divstep worst-case inversions; the arkx / minx configurations and the builds compiled with -C target-cpu=native (minn; thorough: arkn too), which enable the crate's cfg(target_feature) code paths for this CPU, are compared with ark too; decoding and field parsing of the same 32 bytes stored at each of the 16 distances from a 16-byte boundary. Also Zeroize, equality across coset members at Z = 1, sentinel comparisons.",
        "text": "Differential trace check between the two feature configurations over every operation both offer.",
        "note": "sqrt_ratio is logged as (was_square, y^2): the sign of y is not an observable both builds define under one name.",
    },
    "C13": {
        "config_runs_quick": [('arkx', 'C13')], "config_runs": [('arkx', 'C13')],
        "builds": ["ark"], "level": "exploration", "design_ref": "DESIGN.md §3 C13",
        "technique": "runtime monitor over fresh constraint systems: each gadget of a 46-entry catalogue is synthesised honestly on hostile "
                     "inputs and compared with its native counterpart (satisfied <=> native succeeds, output value = native output); "
                     "exhaustive enumeration of lazy forcing histories of length <= 4",
        "rule": "gadget catalogue (names under forms) x inputs: element zoo incl. identity, (0,-1), both coset members, rescalings; pairs "
                "with 10 partner relations x guard bits; s in {0, 8, q-1, 1, small even, q-8, non-square discriminants, valid, random}; "
                "field zoo for Elligator/isqrt/sign gadgets; scalar bit strings of length 0,1,2,64,251,253,256 incl. r, r-1, 2^256-1. "
                "Lazy histories: all 781 sequences of length <= 4 over {compress_to_field, value, cs, clone+compress, clone+value} from "
                "both start states on several elements: constraints may grow only at the first forcing of a missing form, values stay "
                "equal to native, clone-free histories forcing the same forms end in identical matrices. No case is trivial." + DISTINCT,
        "rule_more": "Guards in every presentation (negated witness, output of is_eq / is_neq, public input, constant) for select and conditional enforcement. scalar_mul_le with constant / witness bits mixed (head, tail, interleaved) and constant base points; near-valid rejects and "
                     "special field values as encodings; arkx configuration in both tiers. Optimisation goal Constraints / Weight / None as a configuration; equality family on two constants.",
        "text": "Consistency monitor between circuit and native code; value() is read only on satisfied systems.",
        "note": "the native functions are themselves monitored by C01-C09; hints are honest here (adversarial hints: C14).",
        "timeout": {"quick": 2400, "thorough": 14400},
    },
    "C14": {
        "config_runs_quick": [], "config_runs": [('arkx', 'C14')],
        "builds": ["ark"], "level": "fault_enumeration", "design_ref": "DESIGN.md §3 C14, §4",
        "technique": "fault-injecting runtime monitors: (a) a cfg-guarded thread-local hook substitutes the prover's (was_square, y) hint at "
                     "every isqrt call with every value able to satisfy a case equation; (b) an unchecked constructor supplies off-curve / "
                     "out-of-group witness coordinates; (c) tamper-and-propagate over the R1CS of an honest synthesis: witnesses are split into "
                     "inputs / derived / hints by constraint propagation, every hint (and every run of bit hints, shifted by +-p) is replaced "
                     "by discrete alternatives, derived witnesses are recomputed, satisfaction is confirmed by ConstraintSystem::is_satisfied; "
                     "oracle = satisfied => native accepts and pinned outputs agree",
        "rule": "for every isqrt-using gadget and input of C13's zoo and every isqrt call index: single substitution of (flag, y) with "
                "flag in {true,false} and y in {0, +-1, +-sqrt(1/den), +-sqrt(zeta/den), +-honest, zeta*honest, random} (complete over "
                "satisfying hints for the explored inputs); thorough: all pairs for gadgets with 2-3 calls; witnessed coordinates "
                "(0,0), (0,-1), 4-torsion points, P+T4 outside 2E, other coset member, random off-curve pairs, inconsistent T; "
                "tamper engine: for every catalogue gadget (scalar_mul_le in thorough) and input, every non-derivable witness: boolean "
                "flip, runs of >= 200 bit hints replaced by the bits of v+p and v-p and single flips, field hints replaced by -v, 0, 1, "
                "v+1, zeta*v, random (about 30k tampered assignments in quick). A case = (gadget, input, call index or hint, alternative)." + DISTINCT,
        "rule_more": "Bit decompositions are read off their packing constraints (exact positions), alternatives v +- p on the hint bits; negations of full-size valid encodings as inputs. (d) hostile programs with an honest prover: an invalid lazily decoded encoding (witness or input) among valid registers of "
                     "every allocation mode and 0..4 padding witnesses, forced by negate / add / is_eq / enforce_equal, must be unsatisfiable; "
                     "off-curve multiples (lx, ly) of valid coordinates.",
        "text": "Fault enumeration of malicious prover hints at the two hooked sites. Known finding (not repaired, see known_findings.json): "
                "isqrt accepts (true, +-1) when den = 0.",
        "note": "(a) is complete over satisfying isqrt hints for the explored inputs; (c) explores single-hint discrete alternatives (and "
                "whole bit-run shifts) of every other prover-chosen witness incl. those inside ark-r1cs-std; simultaneous changes of several "
                "independent hints are only explored for isqrt pairs (thorough).",
        "timeout": {"quick": 2400, "thorough": 14400},
    },
    "C15": {
        "config_runs_quick": [('arkx', 'C15')], "config_runs": [('arkx', 'C15')],
        "builds": ["ark"], "level": "exploration", "design_ref": "DESIGN.md §3 C15",
        "technique": "runtime monitor comparing (variables, constraints, matrix digest) across inputs and setup/proving mode within one run, "
                     "the instance assignment of public inputs, and Groth16 prove/verify with the repository's pinned keys",
        "rule": "each catalogue gadget on its input zoo in proving and setup mode: identical (instance, witness, constraint counts, digest "
                "of A,B,C) for every input (per bit-length for scalar_mul_le, per constant for constant operands); public-input "
                "allocation: instance assignment == [1, compress_to_field(E)] == to_field_elements(E) == encodeSpec; seven pinned "
                "circuits re-stated from tests/groth16_gadgets.rs on hostile witnesses (scalars 0, r-1, r, 2^256-1; identity, (0,-1), "
                "both coset members; r0 = 0, +-1): shapes, validated key deserialisation, query lengths vs matrices, honest proofs "
                "verify, each proof rejected for >= 5 wrong public inputs. No case is trivial." + DISTINCT,
        "rule_more": "Witness-only synthesis mode (Prove{construct_matrices:false}) must give the same variables, values and constraint count as proving mode; public inputs with sparse encodings. blank setup (every allocation answers AssignmentMissing): refusal counted, a produced system must equal the proving-mode "
                     "system; CountConstraints on the seven circuits; identity representatives through both public-input paths.",
        "text": "Shape/transcript monitor; digests are only compared within a run, the pinned keys are the only stored reference.",
        "note": "proofs are randomised, only accept/reject bits are compared; trusted: ark-groth16.",
        "timeout": {"quick": 2400, "thorough": 14400},
    },
    "C16": {
        "config_runs_quick": [], "config_runs": [('arkx', 'C16')],
        "builds": ["ark"], "level": "exploration", "design_ref": "DESIGN.md §3 C16",
        "technique": "runtime differential monitor: decaf377::Bls12_377 against the reference ark_bls12_377 engine byte for byte "
                     "(generators, k*G1, k*G2, both serialisation modes in both directions, Miller loop, pairing, Fp2/Fp6/Fp12 Frobenius "
                     "maps and arithmetic) plus bilinearity / non-degeneracy laws",
        "rule": "scalars from the Fq zoo (every 9th member + first 12) and random; per scalar: serialisations of k*G1, k*G2 (compressed and "
                "uncompressed), cross-engine validated deserialisation in both directions, subgroup checks, cofactor-inverse round trip; "
                "pairings e(aG1,bG2) incl. a=-b, small a: output bytes, bilinearity, miller_loop bytes, final_exponentiation, "
                "multi_pairing; random Fp12 elements: frobenius_map(0..11) of Fp12/Fp6/Fp2 components, mul, square, inverse, pow, "
                "Fp2 sqrt/legendre. Trivial: zero scalars." + DISTINCT,
        "rule_more": "Decoded points are compared as objects (stored x, y, infinity flag, identity predicates), not through re-serialisation. readers with partial progress; integer-zoo mul_bigint (q+-2, prefixes c*q+delta, recoding runs, long); hostile points "
                     "related to a just-validated point, with a vanishing coordinate component; multi-pairing lists with identities. Cosets of the subgroup by small-order points; wide scalars on non-members.",
        "text": "Differential monitor against the object the property names (the reference engine is already a dependency of /repo).",
        "note": "trusted: ark-bls12-377 / ark-ec generic code.",
    },
    "C17": {
        "config_runs_quick": [('arkx', 'constants'), ('minx', 'constants')], "config_runs": [('arkx', 'constants'), ('minx', 'constants')],
        "builds": ["ark", "min"], "level": "exploration", "design_ref": "DESIGN.md §3 C17", "exhaustive": True,
        "subcommands": ["constants"], "post": "c17_constants",
        "technique": "runtime dump of every public constant through the public API of both builds + python recomputation from the "
                     "moduli (re-derived from the BLS parameter x): equals-rules and satisfies-rules (generators, roots of unity, "
                     "non-residues, Frobenius coefficients, cofactors, curve coefficients)",
        "rule": "exhaustive over the published constants: 124 checks in the arkworks build (inherent + PrimeField/FftField/Field incl. "
                "SQRT_PRECOMP, decaf TE/Montgomery/CurveConfig constants, Bls12 config, Fp2/Fp6/Fp12 non-residues and all Frobenius "
                "coefficients, G1/G2 coefficients, generators, cofactors and inverses) and 48 in the minimal build. Generator rule uses "
                "the complete factorisation of q-1 and r-1 and a time-boxed partial factorisation of p-1 (stated in coverage.notes). "
                "evaluations = constant checks; distinct_nontrivial = distinct (build, constant) pairs checked.",
        "text": "Finite, complete check of the published constants against values recomputed from the moduli alone.",
        "note": "trusted: python big integers, the harness model's r (prime, inside Hasse interval, r*G = identity checked in the "
                "self-test). Min build's private curve constants are covered behaviourally by C04/C07/C12.",
    },
}

for _p in PROPS.values():
    _p.setdefault("assumptions", COMMON_ASSUMPTIONS)
