"""Per-property configuration of the driver (builds to run, evidence texts)."""

COMMON_ASSUMPTIONS = [
    "the BigUint shadow model (num-bigint arithmetic, transcription of ristretto.sage's unoptimised spec functions) "
    "is right; it is self-tested on every run against the repository's sage vectors (16 generator multiples, "
    "8 Elligator vectors), r*G = identity and Miller-Rabin primality of p, q, r",
    "verdicts concern the executions listed under coverage only (sampled universal quantifier)",
    "harness builds decaf377 from /repo's working tree with --cfg decaf377_verif (hooks only add accessors)",
]

PROPS = {
    "C04": {
        "builds": ["ark", "min"],
        "level": "exploration",
        "rule": "every catalogued operator form (name listed under forms) x operand-class matrix (10 partner relations "
                "x shadowed element zoo incl. both coset members and projective rescalings), sums over iterators, "
                "algebraic laws through the library's own ==, and random straight-line programs mixing all forms; "
                "each result is judged against the model group law (structural invariant via coordinate hook, "
                "denotation up to the coset, and vartime_compress bytes == encodeSpec). A case is the tuple "
                "(form, model operands, projective scalings); trivial = all operands are identity representatives. "
                "distinct_nontrivial is counted per build run and summed.",
        "assumptions": COMMON_ASSUMPTIONS,
        "monitor_profile": [("ark", "C04"), ("min", "C04")],
    },
}
