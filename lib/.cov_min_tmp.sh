#!/bin/bash
# Supporting observer (not a deciding check): which lines of /repo/src do the monitors' workloads
# actually execute?  Builds the harness on the nightly toolchain with -Cinstrument-coverage applied to
# the decaf377 crate and the harness crate only (profile-rustflags; the binary crate must be instrumented
# for the profile runtime to be linked; num-bigint and all other crates stay uninstrumented so that the
# workloads keep their speed), runs every subcommand of both flavours once
# and writes
#   /verif/coverage/<flavour>.txt         per-file summary restricted to /repo/src
#   /verif/coverage/<flavour>.uncovered   every /repo/src line with an execution count of 0
# usage: lib/coverage.sh [tier]       (default quick)
set -u
here="$(cd "$(dirname "$0")/.." && pwd)"
tier="${1:-quick}"
export CARGO_NET_OFFLINE=true
bin="$(dirname "$(rustup which --toolchain nightly rustc)")/../lib/rustlib/x86_64-unknown-linux-gnu/bin"
mkdir -p "$here/coverage" "$here/target/cov"
for fl in min; do
  tdir="$here/target/cov-$fl"
  (cd "$here/harness" && LLVM_PROFILE_FILE="$here/target/cov/build-%p.profraw" RUSTFLAGS="--cfg decaf377_verif" CARGO_TARGET_DIR="$tdir" \
     cargo +nightly build --release --offline --features $fl -Zprofile-rustflags \
       --config 'profile.release.package.decaf377.rustflags=["-Cinstrument-coverage"]' \
       --config 'profile.release.package.dvharness.rustflags=["-Cinstrument-coverage"]' 2>&1 | tail -1)
  exe="$tdir/release/dvharness"
  prof="$here/target/cov/$fl"; rm -rf "$prof"; mkdir -p "$prof"
  subs="C01 C02 C03 C04 C05 C06 C07 C08 C09 lazyinit C10 C11 constants transcript"
  [ $fl = ark ] && subs="$subs C13 C14 C15 C16"
  for s in $subs; do
    # few worker threads: the counters of the (huge, generated) fiat functions are shared by all threads and
    # the cache-line traffic of 16 of them makes the instrumented run slower by orders of magnitude
    VERIF_WORKERS="${COV_WORKERS:-3}" LLVM_PROFILE_FILE="$prof/$s-%p.profraw" "$exe" $s --tier "$tier" --seed "${VERIF_SEED:-1}" --out "$prof/$s.json" 2>&1 | tail -1
  done
  "$bin/llvm-profdata" merge -sparse "$prof"/*.profraw -o "$prof/all.profdata"
  "$bin/llvm-cov" report "$exe" -instr-profile="$prof/all.profdata" --ignore-filename-regex="/verif/" > "$here/coverage/$fl.txt" 2>/dev/null
  "$bin/llvm-cov" show "$exe" -instr-profile="$prof/all.profdata" --ignore-filename-regex="/verif/" --show-line-counts-or-regions=false 2>/dev/null \
    | awk '/^\/repo\/src.*:$/ {f=$0; next} /^ +[0-9]+\| +0\|/ {print f" "$0}' | grep -v "fiat.rs" > "$here/coverage/$fl.uncovered"
  rm -f "$prof"/*.profraw "$here"/target/cov/build-*.profraw
  echo "coverage[$fl]: $(tail -1 "$here/coverage/$fl.txt")"
done
